//! Generic access to the 24 built-in arithmetics through the public
//! `DecoderArithmetic` trait, plus the real-valued reference rules.

use ldpc_toolbox::decoder::arithmetic::DecoderArithmetic;
use ldpc_toolbox::decoder::{Message, SentMessage};

pub trait Num: Copy + std::fmt::Debug + PartialEq + Send + Sync + 'static {
    fn f(self) -> f64;
    fn of(x: f64) -> Self;
    const INT: bool;
    const EPS: f64;
}

impl Num for f64 {
    fn f(self) -> f64 {
        self
    }
    fn of(x: f64) -> f64 {
        x
    }
    const INT: bool = false;
    const EPS: f64 = f64::EPSILON;
}

impl Num for f32 {
    fn f(self) -> f64 {
        self as f64
    }
    fn of(x: f64) -> f32 {
        x as f32
    }
    const INT: bool = false;
    const EPS: f64 = f32::EPSILON as f64;
}

impl Num for i8 {
    fn f(self) -> f64 {
        self as f64
    }
    fn of(x: f64) -> i8 {
        x as i8
    }
    const INT: bool = true;
    const EPS: f64 = 0.0;
}

impl Num for i16 {
    fn f(self) -> f64 {
        self as f64
    }
    fn of(x: f64) -> i16 {
        x as i16
    }
    const INT: bool = true;
    const EPS: f64 = 0.0;
}

/// The shape all built-in arithmetics have.
pub trait Arith: DecoderArithmetic<Llr = Self::V, CheckMessage = Self::V, VarMessage = Self::V, VarLlr = Self::W> + Default {
    type V: Num;
    type W: Num;
}

impl<A, V: Num, W: Num> Arith for A
where
    A: DecoderArithmetic<Llr = V, CheckMessage = V, VarMessage = V, VarLlr = W> + Default,
{
    type V = V;
    type W = W;
}

/// Calls the check-node rule; returns every (dest, value) emitted, in order.
pub fn send_check<A: Arith>(a: &mut A, msgs: &[(usize, A::V)]) -> Vec<(usize, A::V)> {
    let m: Vec<Message<A::V>> = msgs.iter().map(|&(s, v)| Message { source: s, value: v }).collect();
    let mut out = Vec::with_capacity(m.len());
    a.send_check_messages(&m, |s: SentMessage<A::V>| out.push((s.dest, s.value)));
    out
}

/// Calls the variable-node rule; returns (new LLR, emitted (dest, value)).
pub fn send_var<A: Arith>(a: &mut A, input: A::V, msgs: &[(usize, A::V)]) -> (A::V, Vec<(usize, A::V)>) {
    let m: Vec<Message<A::V>> = msgs.iter().map(|&(s, v)| Message { source: s, value: v }).collect();
    let mut out = Vec::with_capacity(m.len());
    let llr = a.send_var_messages(input, &m, |s: SentMessage<A::V>| out.push((s.dest, s.value)));
    (llr, out)
}

/// Calls the layered single-check update in place.
pub fn layered<A: Arith>(a: &mut A, check: &mut Vec<(usize, A::V)>, vars: &mut [A::W]) {
    let mut m: Vec<SentMessage<A::V>> = check.iter().map(|&(d, v)| SentMessage { dest: d, value: v }).collect();
    a.update_check_messages_and_vars(&mut m, vars);
    for (c, s) in check.iter_mut().zip(m.iter()) {
        *c = (s.dest, s.value);
    }
}

fn g(t: f64) -> f64 {
    // log(1 + exp(-t)), t >= 0
    (-t).exp().ln_1p()
}

/// Exact box-plus of two magnitudes (>= 0).
pub fn boxplus_mag(x: f64, y: f64) -> f64 {
    (x.min(y) + g(x + y) - g((x - y).abs())).max(0.0)
}

/// Exact box-plus magnitude of a list of magnitudes.
pub fn boxplus_all(mags: &[f64]) -> f64 {
    let mut it = mags.iter();
    let mut acc = *it.next().expect("boxplus of nothing");
    for &m in it {
        acc = boxplus_mag(acc, m);
    }
    acc
}

/// The real-valued min*-approximation chain (documented rule (35) of the
/// reference), folded in input order.
pub fn minstar_approx_chain(mags: &[f64]) -> f64 {
    let mut it = mags.iter();
    let mut acc = *it.next().expect("chain of nothing");
    for &m in it {
        acc = (acc.min(m) - g((acc - m).abs())).max(0.0);
    }
    acc
}

pub fn negatives(vals: &[f64]) -> usize {
    vals.iter().filter(|&&x| x < 0.0).count()
}
