//! C01 — a decoder never reports success on a word that is not a codeword;
//! verdict / word / iteration-count relation. E-enum: 36 implementations x
//! small matrices (row weight >= 2) x LLR vectors over explicit alphabets x
//! iteration limits, judged by a pure relation (no tolerance).

use crate::common::*;
use crate::dec::{self, Dec};
use crate::mats::{named, Small};
use serde_json::{json, Value};

pub const FULL: [f64; 20] = [
    1.0, -1.0, 0.0, -0.0, 0.0625, -0.0625, 0.0624, -0.0624, 15.875, -15.875, 1e30, -1e30, 1e-30, -1e-30, 1e-46, -1e-46,
    5e-324, -5e-324, 3.7, -3.7,
];
const A9: [f64; 9] = [1.0, -1.0, 0.0, -0.0625, 0.0624, 15.875, -1e30, 1e-46, -3.7];
const A5: [f64; 5] = [1.0, -1.0, 0.0, -0.0625, 1e30];
const A3: [f64; 3] = [1.0, -1.0, 0.0];

pub fn sign_word(llrs: &[f64]) -> u64 {
    llrs.iter().enumerate().fold(0u64, |a, (i, &x)| a | (u64::from(x <= 0.0) << i))
}

fn word_of(cw: &[u8]) -> Option<u64> {
    let mut w = 0u64;
    for (i, &b) in cw.iter().enumerate() {
        match b {
            0 => {}
            1 => w |= 1 << i,
            _ => return None,
        }
    }
    Some(w)
}

/// The relation the property states, for one decode call.
pub fn judge(m: &Small, llrs: &[f64], limit: usize, res: &Dec) -> Result<(), String> {
    let s = sign_word(llrs);
    let s_ok = m.syndrome_ok(s);
    match res {
        Ok(o) => {
            if o.codeword.len() != m.n {
                return Err(format!("success word has length {}", o.codeword.len()));
            }
            let w = word_of(&o.codeword).ok_or("success word has a non-binary entry")?;
            if !m.syndrome_ok(w) {
                return Err(format!("success reported with word {:?} that violates a parity check", o.codeword));
            }
            if o.iterations > limit {
                return Err(format!("success after {} iterations with limit {}", o.iterations, limit));
            }
            if (o.iterations == 0) != s_ok {
                return Err(format!("iteration count {} but sign pattern {} the checks", o.iterations, if s_ok { "satisfies" } else { "violates" }));
            }
            if s_ok && w != s {
                return Err(format!("sign pattern is a codeword but the returned word {:?} differs from it", o.codeword));
            }
            Ok(())
        }
        Err(o) => {
            if s_ok {
                return Err("failure reported although the sign pattern satisfies every check".into());
            }
            if o.codeword.len() != m.n {
                return Err(format!("failure word has length {}", o.codeword.len()));
            }
            if o.iterations != limit {
                return Err(format!("failure with iteration count {} != limit {}", o.iterations, limit));
            }
            let w = word_of(&o.codeword).ok_or("failure word has a non-binary entry")?;
            if limit >= 1 && m.syndrome_ok(w) {
                return Err(format!("failure reported with word {:?} that satisfies every check", o.codeword));
            }
            Ok(())
        }
    }
}

/// The same relation for matrices beyond 64 columns, given as row lists.
fn judge_rows(rows: &[Vec<usize>], n: usize, llrs: &[f64], limit: usize, res: &Dec) -> Result<(), String> {
    let ok = |w: &dyn Fn(usize) -> bool| rows.iter().all(|r| r.iter().filter(|&&j| w(j)).count() % 2 == 0);
    let s_ok = ok(&|j| llrs[j] <= 0.0);
    let (o, success) = match res {
        Ok(o) => (o, true),
        Err(o) => (o, false),
    };
    if o.codeword.len() != n {
        return Err(format!("returned word has length {}", o.codeword.len()));
    }
    if o.codeword.iter().any(|&b| b > 1) {
        return Err("returned word has a non-binary entry".into());
    }
    let w_ok = ok(&|j| o.codeword[j] == 1);
    if success {
        if !w_ok {
            return Err("success reported with a word that violates a parity check".into());
        }
        if o.iterations > limit {
            return Err(format!("success after {} iterations with limit {}", o.iterations, limit));
        }
        if (o.iterations == 0) != s_ok {
            return Err(format!("iteration count {} but the sign pattern {} the checks", o.iterations, if s_ok { "satisfies" } else { "violates" }));
        }
        if s_ok && (0..n).any(|j| (o.codeword[j] == 1) != (llrs[j] <= 0.0)) {
            return Err("sign pattern is a codeword but the returned word differs from it".into());
        }
    } else {
        if s_ok {
            return Err("failure reported although the sign pattern satisfies every check".into());
        }
        if o.iterations != limit {
            return Err(format!("failure with iteration count {} != limit {}", o.iterations, limit));
        }
        if limit >= 1 && w_ok {
            return Err("failure reported with a word that satisfies every check".into());
        }
    }
    Ok(())
}

/// Matrices with a dimension just past 16, 64, 128, 256, 1024 (row lists; n up to a few thousand).
pub fn big_matrices(thorough: bool) -> Vec<(String, usize, Vec<Vec<usize>>)> {
    let mut v: Vec<(String, usize, Vec<Vec<usize>>)> = Vec::new();
    for d in if thorough { vec![17usize, 33, 64, 65, 129, 257, 1025] } else { vec![17usize, 65, 129, 257] } {
        v.push((format!("one-check:1x{}", d), d, vec![(0..d).collect()]));
        v.push((format!("two-checks:2x{}", d + 2), d + 2, vec![(0..d).collect(), (d / 2..d + 2).collect()]));
        // a variable of degree d: d checks {0, 1+i%3}
        v.push((format!("one-variable:{}x4", d), 4, (0..d).map(|i| vec![0, 1 + i % 3]).collect()));
    }
    // a variable just past the range of a 16-bit accumulator of 8-bit messages (257 x 127 + 127 = 32766)
    for d in [258usize, 300] {
        v.push((format!("one-variable:{}x4", d), 4, (0..d).map(|i| vec![0, 1 + i % 3]).collect()));
    }
    for r in if thorough { vec![1024usize, 1025, 2049, 4097] } else { vec![1025usize] } {
        v.push((format!("block-diagonal:{}x{}", r, 3 * r), 3 * r, (0..r).map(|i| vec![3 * i, 3 * i + 1, 3 * i + 2]).collect()));
    }
    v
}

fn big_vectors(n: usize) -> Vec<Vec<f64>> {
    let mut out = vec![vec![2.0; n], vec![-2.0; n]];
    for &p in &[0usize, n / 2, n - 1] {
        for &x in &[-2.0, -0.03, 0.03, 0.0, -15.875] {
            let mut v = vec![2.0; n];
            v[p] = x;
            out.push(v);
        }
    }
    let mut v = vec![2.0; n];
    v[0] = -2.0;
    v[n - 1] = -1.0;
    out.push(v);
    out.push((0..n).map(|j| if j % 2 == 0 { 1.5 } else { -1.5 }).collect());
    out.push((0..n).map(|j| if j % 3 == 0 { -0.5 } else { 3.0 }).collect());
    // saturated 8-bit inputs (127 / 8)
    out.push((0..n).map(|j| if j == 0 { -15.875 } else { 15.875 }).collect());
    out.push(vec![-15.875; n]);
    // the largest magnitude the property allows
    out.push((0..n).map(|j| if j == 0 { -1e30 } else { 1e30 }).collect());
    out.push((0..n).map(|j| if j % 2 == 0 { -1e30 } else { 1e30 }).collect());
    out.sort_by(|a, b| a.partial_cmp(b).unwrap());
    out.dedup();
    out
}

fn run_big_job(name: &str, mname: &str, n: usize, rows: &[Vec<usize>], limits: &[usize], acc: &mut Acc) {
    let build = || {
        let mut h = ldpc_toolbox::sparse::SparseMatrix::new(rows.len(), n);
        // scrambled storage order: rows bottom-up, entries of odd rows descending
        for (i, r) in rows.iter().enumerate().rev() {
            if i % 2 == 1 {
                for &j in r.iter().rev() {
                    h.insert(i, j);
                }
            } else {
                for &j in r {
                    h.insert(i, j);
                }
            }
        }
        h
    };
    let mut decoder = match guard(|| dec::factory_build(name, build())) {
        Ok(Ok(d)) => d,
        other => {
            acc.violate(format!("decode:{}:{}:build", name, mname), format!("cannot build decoder: {:?}", other.map(|r| r.map(|_| ()))), json!({"kind": "big", "name": name, "matrix": mname}));
            return;
        }
    };
    for (vi, llrs) in big_vectors(n).iter().enumerate() {
        for &limit in limits {
            acc.evals += 1;
            let res = guard(|| decoder.decode(llrs, limit));
            let verdict = match &res {
                Err(p) => Err(format!("decode panicked: {}", p)),
                Ok(r) => judge_rows(rows, n, llrs, limit, r),
            };
            if limit >= 1 {
                acc.nontrivial += 1;
            }
            if let Err(text) = verdict {
                acc.violate(format!("decode:{}:{}:v{}:L{}", name, mname, vi, limit), format!("{} [matrix {} vector #{} limit {}]", text, mname, vi, limit), json!({"kind": "big", "name": name, "matrix": mname}));
                if res.is_err() {
                    decoder = dec::factory_build(name, build()).unwrap();
                }
            }
        }
    }
}

#[derive(Clone)]
enum Mode {
    /// full power alphabet^n
    Power(Vec<f64>),
    /// {+a,-a,0}^n
    Ternary(f64),
    /// every single and double substitution of a full-alphabet value into the +-a pattern of each codeword
    Subst(f64),
    /// as Subst, for long matrices: at most the stated number of codewords (evenly spaced in the
    /// enumeration), single substitutions of every full-alphabet value, and a second substitution
    /// (0 or the flipped sign) in every later position
    SubstLite(f64, usize),
}

#[derive(Clone)]
struct Job {
    name: String,
    mname: String,
    m: Small,
    mode: Mode,
    limits: Vec<usize>,
}

fn vectors(m: &Small, mode: &Mode) -> Vec<Vec<f64>> {
    let n = m.n;
    match mode {
        Mode::Power(a) => {
            let total = (a.len() as u64).pow(n as u32);
            (0..total)
                .map(|mut i| {
                    (0..n)
                        .map(|_| {
                            let v = a[(i % a.len() as u64) as usize];
                            i /= a.len() as u64;
                            v
                        })
                        .collect()
                })
                .collect()
        }
        Mode::Ternary(a) => {
            let alpha = [*a, -*a, 0.0];
            let total = 3u64.pow(n as u32);
            (0..total)
                .map(|mut i| {
                    (0..n)
                        .map(|_| {
                            let v = alpha[(i % 3) as usize];
                            i /= 3;
                            v
                        })
                        .collect()
                })
                .collect()
        }
        Mode::SubstLite(a, max_cw) => {
            let mut out = Vec::new();
            let cws = m.codewords();
            let stride = cws.len().div_ceil(*max_cw).max(1);
            for cw in cws.iter().step_by(stride) {
                let base: Vec<f64> = (0..n).map(|j| if (cw >> j) & 1 == 1 { -*a } else { *a }).collect();
                for p in 0..n {
                    for &v in FULL.iter() {
                        let mut x = base.clone();
                        x[p] = v;
                        out.push(x.clone());
                        for q in (p + 1)..n {
                            for u in [0.0, -base[q]] {
                                let mut y = x.clone();
                                y[q] = u;
                                out.push(y);
                            }
                        }
                    }
                }
            }
            out
        }
        Mode::Subst(a) => {
            let mut out = Vec::new();
            for cw in m.codewords() {
                let base: Vec<f64> = (0..n).map(|j| if (cw >> j) & 1 == 1 { -*a } else { *a }).collect();
                for p in 0..n {
                    for &v in FULL.iter() {
                        let mut x = base.clone();
                        x[p] = v;
                        out.push(x.clone());
                        for q in (p + 1)..n {
                            for &u in [0.0, -1e30, 1e-46, -0.0625, 15.875, -*a, *a].iter() {
                                let mut y = x.clone();
                                y[q] = if u == *a { -base[q] } else { u };
                                out.push(y);
                            }
                        }
                    }
                }
            }
            out
        }
    }
}

fn run_job(job: &Job, acc: &mut Acc) {
    // half of the (implementation, matrix) pairs get the matrix through a redundant editing
    // history (bottom-up columns, every entry re-inserted and toggled twice) instead of
    // row-major insertion: the decoder must see the same set of positions either way
    let redundant = (hash64(&(job.name.as_str(), &job.m.rows)) & 1) == 1;
    let build = |m: &Small| if redundant { m.sparse_redundant() } else { m.sparse() };
    let mut decoder = match guard(|| dec::factory_build(&job.name, build(&job.m))) {
        Ok(Ok(d)) => d,
        other => {
            acc.violate(
                format!("decode:{}:{}:build", job.name, job.mname),
                format!("cannot build decoder: {:?}", other.map(|r| r.map(|_| ()))),
                json!({"kind": "build", "name": job.name}),
            );
            return;
        }
    };
    for llrs in vectors(&job.m, &job.mode) {
        for &limit in &job.limits {
            acc.evals += 1;
            let res = guard(|| decoder.decode(&llrs, limit));
            let verdict = match &res {
                Err(p) => Err(format!("decode panicked: {}", p)),
                Ok(r) => judge(&job.m, &llrs, limit, r),
            };
            let s_ok = job.m.syndrome_ok(sign_word(&llrs));
            if let Ok(r) = &res {
                match r {
                    Ok(o) if o.iterations == 0 => acc.count(&format!("{}:shortcut", job.name)),
                    Ok(_) => acc.count(&format!("{}:ok_after_iterations", job.name)),
                    Err(_) => acc.count(&format!("{}:err", job.name)),
                }
                if !s_ok && limit >= 1 {
                    acc.nontrivial += 1;
                }
            }
            if let Err(text) = verdict {
                let bits: Vec<String> = llrs.iter().map(|x| format!("{:e}", x)).collect();
                acc.violate(
                    format!("decode:{}:{}:{:?}:L{}", job.name, job.mname, bits, limit),
                    format!("{} [H={} llrs={:?} limit={} result={}]", text, job.m.alist_like(), llrs, limit, res.as_ref().map(dec::show).unwrap_or_else(|e| e.clone())),
                    json!({"kind": "decode", "name": job.name, "n": job.m.n, "rows": job.m.rows, "llr_bits": llrs.iter().map(|x| x.to_bits()).collect::<Vec<u64>>(), "limit": limit}),
                );
                // a panic may have left the decoder in an arbitrary state
                if res.is_err() {
                    decoder = dec::factory_build(&job.name, build(&job.m)).unwrap();
                }
            } else if acc.evals % 250_007 == 13 {
                let r = res.as_ref().map(dec::show).unwrap_or_default();
                acc.sample(|| json!({"impl": job.name, "H": job.m.alist_like(), "llrs": llrs, "limit": limit, "result": r}));
            }
        }
    }
}

fn replay_element(v: &Value, acc: &mut Acc) {
    if v["kind"] == "big" {
        for (mname, n, rows) in big_matrices(true) {
            if Some(mname.as_str()) == v["matrix"].as_str() {
                run_big_job(v["name"].as_str().unwrap_or(""), &mname, n, &rows, &[0, 1, 5, 12], acc);
            }
        }
        return;
    }
    let name = v["name"].as_str().unwrap().to_string();
    let n = v["n"].as_u64().unwrap() as usize;
    let rows: Vec<u64> = v["rows"].as_array().unwrap().iter().map(|x| x.as_u64().unwrap()).collect();
    let m = Small { r: rows.len(), n, rows };
    let llrs: Vec<f64> = v["llr_bits"].as_array().unwrap().iter().map(|x| f64::from_bits(x.as_u64().unwrap())).collect();
    let limit = v["limit"].as_u64().unwrap() as usize;
    acc.evals += 1;
    let mut d = dec::factory_build(&name, m.sparse()).unwrap();
    let res = guard(|| d.decode(&llrs, limit));
    let verdict = match &res {
        Err(p) => Err(format!("decode panicked: {}", p)),
        Ok(r) => judge(&m, &llrs, limit, r),
    };
    if let Err(t) = verdict {
        acc.violate(format!("decode:{}:replay", name), t, v.clone());
    }
}

fn m2(r: usize, n: usize) -> Vec<Small> {
    (0..(1u64 << (r * n)))
        .map(|mask| Small::from_mask(r, n, mask))
        .filter(|m| m.min_row_weight() >= 2)
        .collect()
}

fn jobs_extra_zerocol(names: &[String], limits: &[usize], jobs: &mut Vec<Job>, matrices: &mut usize) {
    let m = Small::from_rows(7, &[&[0, 1, 3], &[1, 2, 4], &[0, 4, 5], &[2, 3]]);
    *matrices += 1;
    for name in names {
        for mode in [Mode::Ternary(0.6), Mode::Subst(0.6)] {
            jobs.push(Job { name: name.clone(), mname: "zerocol4x7".to_string(), m: m.clone(), mode, limits: limits.to_vec() });
        }
    }
}

pub fn run(run: &Run) -> i32 {
    let mut acc = Acc::new();
    let mut extra = serde_json::Map::new();
    if let Some(p) = &run.replay {
        let v: Value = serde_json::from_str(&std::fs::read_to_string(p).unwrap_or_else(|_| machinery("cannot read replay"))).unwrap_or_else(|_| machinery("bad replay json"));
        replay_element(&v["element"], &mut acc);
    } else {
        let limits: Vec<usize> = if run.thorough() { vec![0, 1, 2, 3, 10, 50] } else { vec![0, 1, 2, 3, 10] };
        let mut jobs = Vec::new();
        let names = dec::names();
        let mut matrices = 0usize;
        let small_sets: Vec<(usize, usize, Vec<f64>)> = if run.thorough() {
            vec![(2, 3, FULL[..12].to_vec()), (2, 4, A9.to_vec()), (3, 4, A5.to_vec()), (3, 5, A3.to_vec()), (2, 5, A5.to_vec()), (2, 6, A3.to_vec()), (4, 4, A3.to_vec())]
        } else {
            vec![(2, 3, A9.to_vec()), (2, 4, A5.to_vec()), (3, 4, A3.to_vec())]
        };
        for (r, n, alpha) in small_sets {
            for m in m2(r, n) {
                matrices += 1;
                for name in &names {
                    jobs.push(Job {
                        name: name.clone(),
                        mname: format!("{}x{}:{}", r, n, m.alist_like()),
                        m: m.clone(),
                        mode: Mode::Power(alpha.clone()),
                        limits: limits.clone(),
                    });
                }
            }
        }
        for (mname, m) in named() {
            matrices += 1;
            for name in &names {
                let mut modes = vec![Mode::Ternary(0.6), Mode::Subst(0.6)];
                if run.thorough() {
                    modes.push(Mode::Ternary(1e30));
                    modes.push(Mode::Subst(1e30));
                    modes.push(Mode::Ternary(15.875));
                } else if m.n <= 7 {
                    modes.push(Mode::Ternary(1e30));
                }
                for mode in modes {
                    jobs.push(Job {
                        name: name.clone(),
                        mname: mname.to_string(),
                        m: m.clone(),
                        mode,
                        limits: limits.clone(),
                    });
                }
            }
        }
        // check degrees 9 and 10 (and 17, 9, 18 in the thorough tier): beyond any small-degree fast path
        // a variable that takes part in no check, and one of degree 1
        jobs_extra_zerocol(&names, &limits, &mut jobs, &mut matrices);
        let mut wide = vec![("wide2x12", Small::from_rows(12, &[&[0, 1, 2, 3, 4, 5, 6, 7, 8], &[2, 3, 4, 5, 6, 7, 8, 9, 10, 11]]))];
        if run.thorough() {
            wide.push(("wide3x20", Small::from_rows(20, &[&[0, 1, 2, 3, 4, 5, 6, 7, 8, 9, 10, 11, 12, 13, 14, 15, 16], &[3, 5, 7, 9, 11, 13, 15, 17, 19], &[1, 2, 3, 4, 5, 6, 7, 8, 9, 10, 11, 12, 13, 14, 15, 17, 18, 19]])));
        }
        for (mname, m) in wide {
            matrices += 1;
            for name in &names {
                for a in if run.thorough() { vec![0.6, 15.875] } else { vec![0.6] } {
                    jobs.push(Job { name: name.clone(), mname: mname.to_string(), m: m.clone(), mode: Mode::SubstLite(a, 8), limits: limits.clone() });
                }
            }
        }
        extra.insert("jobs".into(), json!(jobs.len()));
        extra.insert("matrices".into(), json!(matrices));
        extra.insert("implementations".into(), json!(names.len()));
        acc = par_items(&jobs, |j, a| run_job(j, a));
        // large degrees / many rows
        let big = big_matrices(run.thorough());
        let mut bigjobs: Vec<(String, usize)> = Vec::new();
        for name in &names {
            for i in 0..big.len() {
                bigjobs.push((name.clone(), i));
            }
        }
        let blimits = [0usize, 1, 5, 12];
        let a2 = par_items(&bigjobs, |(name, i), a| run_big_job(name, &big[*i].0, big[*i].1, &big[*i].2, &blimits, a));
        acc = acc.merge(a2);
        // per-implementation outcome mix must not be "shortcut only"
        for name in &names {
            let it = acc.counters.get(&format!("{}:ok_after_iterations", name)).cloned().unwrap_or(0);
            let er = acc.counters.get(&format!("{}:err", name)).cloned().unwrap_or(0);
            if it == 0 || er == 0 {
                machinery(&format!("C01: implementation {} never produced both a success after iterations and a failure: vacuous exploration", name));
            }
        }
    }
    finish(
        run,
        acc,
        Coverage {
            rule: "36 implementation names (factory-built) x every matrix with all row weights >= 2 of the listed shapes (full power of the stated LLR alphabet) and six named matrices plus `zerocol4x7` (an all-zero column) ({+a,-a,0}^n and every single/double substitution of a boundary value into each codeword's sign pattern), plus wide2x12 (check degrees 9 and 10; thorough also wide3x20 with degrees 17, 9, 18) with single/double substitutions into 8 evenly spaced codewords, and matrices with a check or a variable of degree 17, 65, 129, 257 (thorough 1025) or 1025 (4097) rows with ~20 LLR vectors each x iteration limits {0,1,2,3,10[,50]}. Alphabet: +-1, +-0, +-0.0625 (8-bit round-half boundary), +-0.0624, +-15.875 (=127/8), +-1e30, +-1e-30, +-1e-46 (flushes to 0 in f32), +-5e-324, +-3.7. Half of the (implementation, matrix) pairs receive the matrix through a redundant editing history (bottom-up columns, re-inserted and twice-toggled entries). Duplicate-free product; non-trivial = at least one iteration executed (sign pattern not a codeword and limit >= 1). Per-implementation counters of shortcut / success-after-iterations / failure are in counters.".into(),
            exhaustive: true,
            extra,
            graph: None,
            assumptions: vec![
                "real-valued LLRs: exhaustive over the stated alphabet only".into(),
                "matrices beyond the listed shapes are not claimed; row weight >= 2 is the property's precondition".into(),
            ],
        },
    )
}
