//! C02 — the systematic encoder always emits a codeword that begins with the
//! message. E-enum over all small matrices x all messages, plus the
//! staircase / near-staircase family.

use crate::common::*;
use crate::mats::Small;
use ldpc_toolbox::encoder::{Encoder, Error};
use ldpc_toolbox::gf2::GF2;
use ndarray::Array1;
use num_traits::{One, Zero};
use serde_json::{json, Value};

fn bit(msg: u64, i: usize) -> GF2 {
    if (msg >> i) & 1 == 1 {
        GF2::one()
    } else {
        GF2::zero()
    }
}

/// `layout` 0: owned standard array; 1: reversed view of the reversed data (stride -1);
/// 2: every second element of an interleaved buffer (stride 2).
fn encode_word(enc: &Encoder, k: usize, msg: u64, layout: usize) -> Vec<u8> {
    use ndarray::s;
    let out = match layout {
        0 => enc.encode(&Array1::from_iter((0..k).map(|i| bit(msg, i)))),
        1 => {
            let rev = Array1::from_iter((0..k).rev().map(|i| bit(msg, i)));
            enc.encode(&rev.slice(s![..;-1]))
        }
        _ => {
            let wide = Array1::from_iter((0..2 * k).map(|i| if i % 2 == 0 { bit(msg, i / 2) } else { bit(!msg, i / 2) }));
            enc.encode(&wide.slice(s![..;2]))
        }
    };
    out.iter().map(|x| u8::from(x.is_one())).collect()
}

fn is_staircase_tail(m: &Small) -> bool {
    let k = m.n - m.r;
    (0..m.r).all(|i| {
        let tail = m.rows[i] >> k;
        let want = if i == 0 { 1u64 } else { (1u64 << i) | (1u64 << (i - 1)) };
        tail == want
    })
}

pub fn check_matrix(m: &Small, origin: &str, acc: &mut Acc) {
    acc.evals += 1;
    let (r, n) = (m.r, m.n);
    let k = n - r;
    let key = format!("encoder:{}x{}:{}", r, n, m.alist_like());
    let replay = json!({"kind": "matrix", "n": n, "rows": m.rows, "origin": origin});
    let inv = m.tail_invertible();
    // the matrix is built in four different insertion orders (adjacency lists are in insertion
    // order, and nothing the encoder does may depend on it); order 0 is judged in full, the
    // others must give the same verdict and the same codewords
    let mut per_order: Vec<Option<Vec<Vec<u8>>>> = Vec::new();
    for order in 1..4usize {
        let ho = m.sparse_order(order);
        let r = guard(|| Encoder::from_h(&ho).ok().map(|e| (0..(1u64 << k)).map(|msg| encode_word(&e, k, msg, (order + msg as usize) % 3)).collect::<Vec<_>>()));
        match r {
            Ok(x) => per_order.push(x),
            Err(e) => {
                acc.violate(key, format!("insertion order {}: from_h / encode panicked: {}", order, e), replay);
                return;
            }
        }
    }
    let h = m.sparse();
    let enc = match guard(|| Encoder::from_h(&h)) {
        Err(e) => {
            acc.violate(key, format!("from_h panicked: {} (tail invertible: {})", e, inv), replay);
            return;
        }
        Ok(Err(Error::SubmatrixNotInvertible)) => {
            acc.count("singular_tail");
            if per_order.iter().any(|x| x.is_some()) {
                acc.violate(key, "accepted or rejected depending on the insertion order of the entries".into(), replay);
                return;
            }
            if inv {
                acc.violate(key, "from_h rejected a matrix whose last r columns are invertible".into(), replay);
            }
            return;
        }
        Ok(Ok(e)) => e,
    };
    if !inv {
        acc.violate(key, "from_h accepted a matrix whose last r columns are singular".into(), replay);
        return;
    }
    if k > 0 {
        acc.nontrivial += 1;
    }
    let stair = is_staircase_tail(m);
    let dbg = format!("{:?}", enc);
    if stair {
        acc.count("staircase_tail");
        if dbg.contains("Staircase") {
            acc.count("staircase_fast_path_taken");
        }
    } else if dbg.contains("Staircase") {
        acc.count("staircase_variant_on_general_tail");
    }
    let nm = 1u64 << k;
    let words: Result<Vec<Vec<u8>>, String> = guard(|| (0..nm).map(|msg| encode_word(&enc, k, msg, 0)).collect());
    let words = match words {
        Ok(w) => w,
        Err(e) => {
            acc.violate(key, format!("encode panicked: {}", e), replay);
            return;
        }
    };
    for (msg, w) in words.iter().enumerate() {
        let msg = msg as u64;
        if w.len() != n {
            acc.violate(key, format!("message {:b}: output has {} bits", msg, w.len()), replay);
            return;
        }
        let x = w.iter().enumerate().fold(0u64, |a, (j, &b)| a | ((b as u64) << j));
        if x & (nm - 1) != msg {
            acc.violate(key, format!("message {:b}: output {:?} does not begin with the message", msg, w), replay);
            return;
        }
        if !m.syndrome_ok(x) {
            acc.violate(key, format!("message {:b}: output {:?} violates a parity check", msg, w), replay);
            return;
        }
    }
    for (o, w) in per_order.iter().enumerate() {
        match w {
            Some(w) if *w == words => {}
            Some(_) => {
                acc.violate(key, format!("the same matrix built in insertion order {} (message passed as a strided / reversed view) encodes differently", o + 1), replay);
                return;
            }
            None => {
                acc.violate(key, format!("the same matrix built in insertion order {} is rejected", o + 1), replay);
                return;
            }
        }
    }
    // linearity
    let as_u64 = |w: &Vec<u8>| w.iter().enumerate().fold(0u64, |a, (j, &b)| a | ((b as u64) << j));
    if as_u64(&words[0]) != 0 {
        acc.violate(key, "enc(0) != 0".into(), replay);
        return;
    }
    if k <= 5 {
        for a in 0..nm {
            for b in a..nm {
                if as_u64(&words[a as usize]) ^ as_u64(&words[b as usize]) != as_u64(&words[(a ^ b) as usize]) {
                    acc.violate(key, format!("enc({:b}) + enc({:b}) != enc({:b})", a, b, a ^ b), replay);
                    return;
                }
            }
        }
    }
    acc.outcome(&words);
    if acc.evals % 4001 == 3 {
        acc.sample(|| json!({"H": m.alist_like(), "staircase": stair, "codewords": words.iter().map(|w| w.iter().map(|b| b.to_string()).collect::<String>()).collect::<Vec<_>>() }));
    }
}

/// Every relative storage order of the entries inside the rows: for each permutation sigma of the
/// columns the matrix is built row by row with each row's entries inserted in sigma order (and,
/// for odd-indexed permutations, the rows bottom-up). Verdict and codewords must equal those of the
/// row-major build (which check_matrix judges against the reference).
pub fn check_column_orders(m: &Small, acc: &mut Acc) {
    let (r, n) = (m.r, m.n);
    let k = n - r;
    let key = format!("encoder:orders:{}x{}:{}", r, n, m.alist_like());
    let replay = json!({"kind": "matrix", "n": n, "rows": m.rows, "origin": "orders"});
    let words_of = |h: &ldpc_toolbox::sparse::SparseMatrix| -> Result<Option<Vec<Vec<u8>>>, String> { guard(|| Encoder::from_h(h).ok().map(|e| (0..(1u64 << k)).map(|msg| encode_word(&e, k, msg, 0)).collect::<Vec<_>>())) };
    let base = match words_of(&m.sparse()) {
        Ok(b) => b,
        Err(_) => return, // reported by check_matrix
    };
    let mut perm: Vec<usize> = (0..n).collect();
    let mut idx = 0usize;
    loop {
        acc.evals += 1;
        if base.is_some() {
            acc.nontrivial += 1;
        }
        let mut h = ldpc_toolbox::sparse::SparseMatrix::new(r, n);
        let rows: Vec<usize> = if idx % 2 == 0 { (0..r).collect() } else { (0..r).rev().collect() };
        for &i in &rows {
            for &j in &perm {
                if m.get(i, j) {
                    h.insert(i, j);
                }
            }
        }
        match words_of(&h) {
            Err(e) => {
                acc.violate(key, format!("built with the row entries in column order {:?}: from_h / encode panicked: {}", perm, e), replay);
                return;
            }
            Ok(w) => {
                if w.is_some() != base.is_some() {
                    acc.violate(key, format!("accepted: {} when built row-major, {} when the row entries are inserted in column order {:?}", base.is_some(), w.is_some(), perm), replay);
                    return;
                }
                if w != base {
                    acc.violate(key, format!("encodes differently when the row entries are inserted in column order {:?}", perm), replay);
                    return;
                }
            }
        }
        idx += 1;
        // next permutation (lexicographic)
        let Some(i) = (0..n.saturating_sub(1)).rev().find(|&i| perm[i] < perm[i + 1]) else { break };
        let j = (i + 1..n).rev().find(|&j| perm[j] > perm[i]).unwrap();
        perm.swap(i, j);
        perm[i + 1..].reverse();
    }
}

fn check_big(name: &str, h: &ldpc_toolbox::sparse::SparseMatrix, acc: &mut Acc) {
    use crate::mats::Big;
    acc.evals += 1;
    let (r, n) = (h.num_rows(), h.num_cols());
    let k = n - r;
    let key = format!("encoder:big:{}", name);
    let replay = json!({"kind": "big", "name": name});
    let inv = Big::from_sparse_cols(h, k).rank() == r;
    match guard(|| Encoder::from_h(h)) {
        Err(e) => acc.violate(key, format!("from_h panicked: {} (tail invertible: {})", e, inv), replay),
        Ok(Err(_)) => {
            if inv {
                acc.violate(key, format!("from_h rejected a {}x{} matrix whose last r columns are invertible", r, n), replay);
            }
        }
        Ok(Ok(enc)) => {
            if !inv {
                acc.violate(key, format!("from_h accepted a {}x{} matrix whose last r columns are singular", r, n), replay);
                return;
            }
            acc.nontrivial += 1;
            let mut msgs = crate::codes::three_messages(k);
            for u in [0, k / 2, k - 1] {
                let mut m = vec![0u8; k];
                m[u] = 1;
                msgs.push(m);
            }
            for msg in msgs {
                match guard(|| crate::codes::encode_bits(&enc, &msg)) {
                    Ok(cw) => {
                        if cw.len() != n || cw[..k] != msg[..] || !crate::codes::syndrome_ok(h, &cw) {
                            acc.violate(key, format!("{}x{}: encoder output is not a systematic codeword", r, n), replay);
                            return;
                        }
                    }
                    Err(e) => {
                        acc.violate(key, format!("encode panicked: {}", e), replay);
                        return;
                    }
                }
            }
        }
    }
}

/// Few checks, thousands of information columns (widths around 64, 256, 4096, 8192; thorough 65536):
/// staircase and non-staircase invertible tails, sparse and dense information parts.
fn wide_families(thorough: bool) -> Vec<(String, ldpc_toolbox::sparse::SparseMatrix)> {
    use ldpc_toolbox::sparse::SparseMatrix;
    let mut out = Vec::new();
    let mut widths = vec![33usize, 65, 129, 257, 513, 1025, 2049, 4097, 5000, 8193, 16385, 32769, 65537, 65539, 131073];
    if thorough {
        widths.extend([63, 64, 255, 256, 4095, 4096, 16384, 65536, 262145]);
    }
    for &n in &widths {
        for r in [2usize, 3, 8] {
            if n > 10000 && r != 2 {
                continue;
            }
            let k = n - r;
            for (tail, tname) in [(0usize, "staircase"), (1, "triangular"), (2, "singular")] {
                for (info, iname) in [(0usize, "sparse"), (1, "dense")] {
                    if tail == 2 && info == 1 {
                        continue;
                    }
                    let mut h = SparseMatrix::new(r, n);
                    let mut x = 0x0123_4567_89AB_CDEFu64 ^ ((n * 64 + r * 4 + tail) as u64);
                    for i in 0..r {
                        if info == 0 {
                            h.insert(i, i % k);
                            h.insert(i, k - 1 - (i * 3) % k);
                            h.insert(i, (i * 2_654_435_761 + 99) % k);
                        } else {
                            for j in 0..k {
                                x ^= x << 13;
                                x ^= x >> 7;
                                x ^= x << 17;
                                if x & 3 == 0 {
                                    h.insert(i, j);
                                }
                            }
                        }
                        match tail {
                            0 => {
                                h.insert(i, k + i);
                                if i > 0 {
                                    h.insert(i, k + i - 1);
                                }
                            }
                            1 => {
                                // unit lower triangular with a full first column: invertible, not a staircase
                                h.insert(i, k + i);
                                if i > 0 {
                                    h.insert(i, k);
                                }
                            }
                            _ => {
                                // last two tail columns equal: singular
                                if i + 2 < r {
                                    h.insert(i, k + i);
                                }
                                h.insert(i, k + r - 2);
                                h.insert(i, k + r - 1);
                            }
                        }
                    }
                    out.push((format!("wide:{}:{}:{}x{}", tname, iname, r, n), h));
                }
            }
        }
    }
    // many checks: staircase tails with 17..4097 rows (thorough to 16385) and a narrow information part
    let mut talls = vec![17usize, 65, 257, 1025, 2049, 3000, 4097];
    if thorough {
        talls.extend([1024, 2048, 4096, 8193, 16385]);
    }
    for &r in &talls {
        for k in [1usize, 3] {
            for variant in 0..2usize {
                let n = r + k;
                let mut h = SparseMatrix::new(r, n);
                for i in 0..r {
                    // information part: sparse (variant 0) or every row touches column 0 (variant 1)
                    if variant == 1 || i % 5 == 0 || i == r - 1 {
                        h.insert(i, 0);
                    }
                    if k > 1 && (i * 7 + 3) % 11 < 4 {
                        h.insert(i, 1 + i % (k - 1));
                    }
                    h.insert(i, k + i);
                    if i > 0 {
                        h.insert(i, k + i - 1);
                    }
                }
                out.push((format!("tall:staircase:v{}:{}x{}", variant, r, n), h.clone()));
                // one extra tail entry far from the diagonal: not a staircase, still invertible
                if variant == 0 {
                    h.insert(r - 1, k);
                    out.push((format!("tall:near-staircase:{}x{}", r, n), h));
                }
            }
        }
    }
    out
}

fn staircase_matrix(r: usize, k: usize, h0: u64) -> Small {
    let n = k + r;
    let mut rows = Vec::new();
    for i in 0..r {
        let info = (h0 >> (i * k)) & ((1u64 << k) - 1);
        let tail = if i == 0 { 1u64 } else { (1u64 << i) | (1u64 << (i - 1)) };
        rows.push(info | (tail << k));
    }
    Small { r, n, rows }
}

fn replay_element(v: &Value, acc: &mut Acc) {
    if v["kind"] == "big" {
        for (n, h) in crate::c09::big_families_pub(true).into_iter().chain(wide_families(true)) {
            if Some(n.as_str()) == v["name"].as_str() {
                check_big(&n, &h, acc);
            }
        }
        return;
    }
    let n = v["n"].as_u64().unwrap() as usize;
    let rows: Vec<u64> = v["rows"].as_array().unwrap().iter().map(|x| x.as_u64().unwrap()).collect();
    let m = Small { r: rows.len(), n, rows };
    check_matrix(&m, "replay", acc);
    if n <= 6 {
        check_column_orders(&m, acc);
    }
}

pub fn run(run: &Run) -> i32 {
    let mut acc = Acc::new();
    if let Some(p) = &run.replay {
        let v: Value = serde_json::from_str(&std::fs::read_to_string(p).unwrap_or_else(|_| machinery("cannot read replay"))).unwrap_or_else(|_| machinery("bad replay json"));
        replay_element(&v["element"], &mut acc);
    } else {
        let mut shapes = vec![];
        for r in 1..=3usize {
            for n in r..=5 {
                shapes.push((r, n));
            }
        }
        shapes.extend([(4, 4), (4, 5), (2, 6), (1, 7)]);
        if run.thorough() {
            shapes.extend([(4, 6), (3, 6), (5, 5), (3, 7)]);
        }
        for (r, n) in shapes {
            let a = par_fold(1u64 << (r * n), |mask, a| check_matrix(&Small::from_mask(r, n, mask), "dense", a));
            acc = acc.merge(a);
        }
        // staircase family: exact staircase tail with every H0, every single-bit flip of the tail
        let rmax = if run.thorough() { 6 } else { 5 };
        for r in 1..=rmax {
            for k in 0..=4usize {
                if r * k > 20 {
                    continue;
                }
                let flips = if run.thorough() || r * k <= 12 { r * r } else { 0 };
                let a = par_fold(1u64 << (r * k), |h0, a| {
                    let m = staircase_matrix(r, k, h0);
                    check_matrix(&m, "staircase", a);
                    for f in 0..flips {
                        let (i, j) = (f / r, f % r);
                        let mut m2 = m.clone();
                        m2.rows[i] ^= 1u64 << (k + j);
                        check_matrix(&m2, "near-staircase", a);
                    }
                });
                acc = acc.merge(a);
            }
        }
    }
    if run.replay.is_none() {
        // every storage order of the row entries, for the shapes where that is affordable
        let mut list: Vec<Small> = Vec::new();
        for (r, n) in if run.thorough() { vec![(2usize, 3usize), (2, 4), (3, 4), (3, 5), (2, 5)] } else { vec![(2usize, 3usize), (2, 4), (3, 4)] } {
            for mask in 0..(1u64 << (r * n)) {
                list.push(Small::from_mask(r, n, mask));
            }
        }
        for r in 1..=3usize {
            for k in 0..=if run.thorough() { 3usize } else { 2 } {
                for h0 in 0..(1u64 << (r * k)) {
                    let m = staircase_matrix(r, k, h0);
                    for f in 0..r * r {
                        let mut m2 = m.clone();
                        m2.rows[f / r] ^= 1u64 << (k + f % r);
                        list.push(m2);
                    }
                    list.push(m);
                }
            }
        }
        let a = par_items(&list, |m, a| check_column_orders(m, a));
        acc = acc.merge(a);
    }
    if run.replay.is_none() {
        // many rows: dense invertible / singular tails (fill-in during elimination), reference by big bit-set rank
        let mut fam = crate::c09::big_families_pub(run.thorough());
        fam.extend(wide_families(run.thorough()));
        let a = par_items(&fam, |(name, h), a| check_big(name, h, a));
        acc = acc.merge(a);
    }
    let stair = acc.counters.get("staircase_tail").cloned().unwrap_or(0);
    let fast = acc.counters.get("staircase_fast_path_taken").cloned().unwrap_or(0);
    let mut extra = serde_json::Map::new();
    extra.insert("staircase_tails".into(), json!(stair));
    extra.insert("staircase_fast_path".into(), json!(fast));
    finish(
        run,
        acc,
        Coverage {
            rule: "every binary matrix of every listed shape (all masks) plus, for r up to the bound and k<=4, the exact staircase tail with every information part and every single-bit flip of the r x r tail; for each accepted matrix ALL 2^(n-r) messages and all message pairs (linearity); every matrix is additionally built in three scrambled insertion orders, with the messages passed as owned arrays, reversed views (stride -1) and stride-2 views, and must give the same verdict and codewords; for the shapes 2x3, 2x4, 3x4 (thorough 3x5, 2x5) and the (near-)staircase family with r <= 3, k <= 2 (3), EVERY storage order of the entries within the rows (all n! column permutations, rows top-down / bottom-up). Plus deterministic families with many rows (dense invertible and singular tails up to 40 (64) rows) and wide families (2, 3, 8 checks x 33..131073 (262145) columns at every power of two plus one: staircase, triangular and singular tails, sparse and dense information parts; six messages each) and tall staircase / near-staircase families with 17..4097 (16385) checks. Non-trivial = invertible tail and n > r.".into(),
            exhaustive: true,
            extra,
            graph: None,
            assumptions: vec!["which internal encoder variant is used is recorded (counters) but not judged here; C06 judges it for the DVB-S2 matrices".into()],
        },
    )
}
