//! C03 — both decoding schedules are textbook belief propagation for any
//! arithmetic. The generic `flooding::Decoder<A>` / `horizontal_layered::
//! Decoder<A>` are instantiated with checker-supplied arithmetics (exact
//! integer min-sum; a probing wrapper that logs every trait call; a forcing
//! wrapper that makes the syndrome test fail so the decoder runs to the
//! limit) and compared, call by call, with a textbook implementation written
//! from the definitions. Exactness clause: all small forests, brute-force
//! posterior.

use crate::common::*;
use crate::mats::{named, RefGraph, Small};
use ldpc_toolbox::decoder::arithmetic::{DecoderArithmetic, Phif64, Tanhf64};
use ldpc_toolbox::decoder::{flooding, horizontal_layered, DecoderOutput, Message, SentMessage};
use serde_json::{json, Value};
use std::cell::Cell;
use std::fmt::Debug;
use std::sync::{Arc, Mutex};

// ------------------------------------------------------------ IntMinSum

#[derive(Debug, Clone, Default)]
pub struct IntMinSum;

fn minsum_others(vals: &[i64], skip: usize) -> i64 {
    let mut neg = false;
    let mut m = i64::MAX;
    for (j, &x) in vals.iter().enumerate() {
        if j == skip {
            continue;
        }
        if x < 0 {
            neg = !neg;
        }
        m = m.min(x.abs());
    }
    if neg {
        -m
    } else {
        m
    }
}

impl DecoderArithmetic for IntMinSum {
    type Llr = i64;
    type CheckMessage = i64;
    type VarMessage = i64;
    type VarLlr = i64;
    fn input_llr_quantize(&self, llr: f64) -> i64 {
        llr as i64
    }
    fn llr_hard_decision(&self, llr: i64) -> bool {
        llr <= 0
    }
    fn llr_to_var_message(&self, llr: i64) -> i64 {
        llr
    }
    fn llr_to_var_llr(&self, llr: i64) -> i64 {
        llr
    }
    fn var_llr_to_llr(&self, v: i64) -> i64 {
        v
    }
    fn send_check_messages<F>(&mut self, var_messages: &[Message<i64>], mut send: F)
    where
        F: FnMut(SentMessage<i64>),
    {
        let vals: Vec<i64> = var_messages.iter().map(|m| m.value).collect();
        for (i, m) in var_messages.iter().enumerate() {
            send(SentMessage { dest: m.source, value: minsum_others(&vals, i) });
        }
    }
    fn send_var_messages<F>(&mut self, input_llr: i64, check_messages: &[Message<i64>], mut send: F) -> i64
    where
        F: FnMut(SentMessage<i64>),
    {
        let total = input_llr + check_messages.iter().map(|m| m.value).sum::<i64>();
        for m in check_messages {
            send(SentMessage { dest: m.source, value: total - m.value });
        }
        total
    }
    fn update_check_messages_and_vars(&mut self, check_messages: &mut [SentMessage<i64>], vars: &mut [i64]) {
        let ext: Vec<i64> = check_messages.iter().map(|m| vars[m.dest] - m.value).collect();
        for (i, m) in check_messages.iter_mut().enumerate() {
            let new = minsum_others(&ext, i);
            m.value = new;
            vars[m.dest] = ext[i] + new;
        }
    }
}

// ------------------------------------------------------------ Probe<A>

#[derive(Clone, Copy, Debug, Default, PartialEq)]
pub struct T<X> {
    idx: usize,
    x: X,
}

#[derive(Debug, Clone)]
enum Call {
    Check(String),
    Var { idx: usize, text: String, ret: String },
    Layer { text: String, vars_after: Vec<String> },
}

pub struct Probe<A: DecoderArithmetic> {
    inner: A,
    n: usize,
    counter: Cell<usize>,
    /// Some(c): hard decision is "1" for variable c only, so a row containing c fails
    force: Option<usize>,
    log: Arc<Mutex<Vec<Call>>>,
}

impl<A: DecoderArithmetic> Debug for Probe<A> {
    fn fmt(&self, f: &mut std::fmt::Formatter<'_>) -> std::fmt::Result {
        write!(f, "Probe({:?})", self.inner)
    }
}

fn fmt_pairs<X: Debug>(mut v: Vec<(usize, X)>) -> String {
    v.sort_by_key(|p| p.0);
    format!("{:?}", v)
}

impl<A: DecoderArithmetic> DecoderArithmetic for Probe<A> {
    type Llr = T<A::Llr>;
    type CheckMessage = A::CheckMessage;
    type VarMessage = A::VarMessage;
    type VarLlr = T<A::VarLlr>;

    fn input_llr_quantize(&self, llr: f64) -> T<A::Llr> {
        let c = self.counter.get();
        self.counter.set(c + 1);
        T { idx: c % self.n, x: self.inner.input_llr_quantize(llr) }
    }
    fn llr_hard_decision(&self, llr: T<A::Llr>) -> bool {
        match self.force {
            Some(c) => llr.idx == c,
            None => self.inner.llr_hard_decision(llr.x),
        }
    }
    fn llr_to_var_message(&self, llr: T<A::Llr>) -> A::VarMessage {
        self.inner.llr_to_var_message(llr.x)
    }
    fn llr_to_var_llr(&self, llr: T<A::Llr>) -> T<A::VarLlr> {
        T { idx: llr.idx, x: self.inner.llr_to_var_llr(llr.x) }
    }
    fn var_llr_to_llr(&self, v: T<A::VarLlr>) -> T<A::Llr> {
        T { idx: v.idx, x: self.inner.var_llr_to_llr(v.x) }
    }
    fn send_check_messages<F>(&mut self, var_messages: &[Message<A::VarMessage>], mut send: F)
    where
        F: FnMut(SentMessage<A::CheckMessage>),
    {
        let inp: Vec<(usize, A::VarMessage)> = var_messages.iter().map(|m| (m.source, m.value)).collect();
        let mut out = Vec::new();
        self.inner.send_check_messages(var_messages, |s| {
            out.push((s.dest, s.value));
            send(s)
        });
        self.log.lock().unwrap().push(Call::Check(format!("{} => {}", fmt_pairs(inp), fmt_pairs(out))));
    }
    fn send_var_messages<F>(&mut self, input_llr: T<A::Llr>, check_messages: &[Message<A::CheckMessage>], mut send: F) -> T<A::Llr>
    where
        F: FnMut(SentMessage<A::VarMessage>),
    {
        let inp: Vec<(usize, A::CheckMessage)> = check_messages.iter().map(|m| (m.source, m.value)).collect();
        let mut out = Vec::new();
        let ret = self.inner.send_var_messages(input_llr.x, check_messages, |s| {
            out.push((s.dest, s.value));
            send(s)
        });
        self.log.lock().unwrap().push(Call::Var {
            idx: input_llr.idx,
            text: format!("in={:?} {} => {}", input_llr.x, fmt_pairs(inp), fmt_pairs(out)),
            ret: format!("{:?}", ret),
        });
        T { idx: input_llr.idx, x: ret }
    }
    fn update_check_messages_and_vars(&mut self, check_messages: &mut [SentMessage<A::CheckMessage>], vars: &mut [T<A::VarLlr>]) {
        let before: Vec<(usize, A::CheckMessage)> = check_messages.iter().map(|m| (m.dest, m.value)).collect();
        let mut inner_vars: Vec<A::VarLlr> = vars.iter().map(|v| v.x).collect();
        let vars_before = format!("{:?}", inner_vars);
        self.inner.update_check_messages_and_vars(check_messages, &mut inner_vars);
        for (v, x) in vars.iter_mut().zip(inner_vars.iter()) {
            v.x = *x;
        }
        let after: Vec<(usize, A::CheckMessage)> = check_messages.iter().map(|m| (m.dest, m.value)).collect();
        // positional identity of the variables must be what the decoder believes
        let tags_ok = vars.iter().enumerate().all(|(i, v)| v.idx == i);
        self.log.lock().unwrap().push(Call::Layer {
            text: format!("{} vars={} => {} tags_ok={}", fmt_pairs(before), vars_before, fmt_pairs(after), tags_ok),
            vars_after: inner_vars.iter().map(|x| format!("{:?}", self.inner.var_llr_to_llr(*x))).collect(),
        });
    }
}

// ------------------------------------------------------------ textbook reference

struct RefRun {
    ok: bool,
    word: Vec<u8>,
    iters: usize,
    /// flooding: per iteration (sorted check calls, var calls by variable); layered: ordered layer calls
    flood_log: Vec<(Vec<String>, Vec<(usize, String, String)>)>,
    layer_log: Vec<String>,
    final_llrs: Vec<String>,
}

fn hd_word<A: DecoderArithmetic>(a: &A, l: &[A::Llr], force: Option<usize>) -> Vec<u8> {
    l.iter()
        .enumerate()
        .map(|(i, &x)| match force {
            Some(c) => u8::from(i == c),
            None => u8::from(a.llr_hard_decision(x)),
        })
        .collect()
}

fn word_ok(m: &Small, w: &[u8]) -> bool {
    m.syndrome_ok(w.iter().enumerate().fold(0u64, |a, (i, &b)| a | ((b as u64) << i)))
}

fn ref_flooding<A: DecoderArithmetic>(mut a: A, m: &Small, llrs: &[f64], limit: usize, force: Option<usize>) -> RefRun {
    let sign: Vec<u8> = llrs.iter().map(|&x| u8::from(x <= 0.0)).collect();
    if word_ok(m, &sign) {
        return RefRun { ok: true, word: sign, iters: 0, flood_log: vec![], layer_log: vec![], final_llrs: vec![] };
    }
    let q: Vec<A::Llr> = llrs.iter().map(|&x| a.input_llr_quantize(x)).collect();
    // v2c[c][v], c2v[v][c]
    let mut v2c: Vec<Vec<Option<A::VarMessage>>> = vec![vec![None; m.n]; m.r];
    let mut c2v: Vec<Vec<Option<A::CheckMessage>>> = vec![vec![None; m.r]; m.n];
    for (c, v) in m.entries() {
        v2c[c][v] = Some(a.llr_to_var_message(q[v]));
    }
    let mut out_llr: Vec<A::Llr> = q.clone();
    let mut log = Vec::new();
    for it in 1..=limit {
        let mut checks = Vec::new();
        for c in 0..m.r {
            let inp: Vec<Message<A::VarMessage>> = (0..m.n).filter(|&v| m.get(c, v)).map(|v| Message { source: v, value: v2c[c][v].unwrap() }).collect();
            let mut out = Vec::new();
            a.send_check_messages(&inp, |s| out.push((s.dest, s.value)));
            for &(v, x) in &out {
                c2v[v][c] = Some(x);
            }
            checks.push(format!("{} => {}", fmt_pairs(inp.iter().map(|m| (m.source, m.value)).collect()), fmt_pairs(out)));
        }
        checks.sort();
        let mut vars = Vec::new();
        for v in 0..m.n {
            let inp: Vec<Message<A::CheckMessage>> = (0..m.r).filter(|&c| m.get(c, v)).map(|c| Message { source: c, value: c2v[v][c].unwrap() }).collect();
            let mut out = Vec::new();
            let ret = a.send_var_messages(q[v], &inp, |s| out.push((s.dest, s.value)));
            for &(c, x) in &out {
                v2c[c][v] = Some(x);
            }
            out_llr[v] = ret;
            vars.push((v, format!("in={:?} {} => {}", q[v], fmt_pairs(inp.iter().map(|m| (m.source, m.value)).collect()), fmt_pairs(out)), format!("{:?}", ret)));
        }
        log.push((checks, vars));
        let w = hd_word(&a, &out_llr, force);
        if word_ok(m, &w) {
            return RefRun { ok: true, word: w, iters: it, flood_log: log, layer_log: vec![], final_llrs: out_llr.iter().map(|x| format!("{:?}", x)).collect() };
        }
    }
    RefRun {
        ok: false,
        word: hd_word(&a, &out_llr, force),
        iters: limit,
        flood_log: log,
        layer_log: vec![],
        final_llrs: out_llr.iter().map(|x| format!("{:?}", x)).collect(),
    }
}

fn ref_layered<A: DecoderArithmetic>(mut a: A, m: &Small, llrs: &[f64], limit: usize, force: Option<usize>) -> RefRun {
    let sign: Vec<u8> = llrs.iter().map(|&x| u8::from(x <= 0.0)).collect();
    if word_ok(m, &sign) {
        return RefRun { ok: true, word: sign, iters: 0, flood_log: vec![], layer_log: vec![], final_llrs: vec![] };
    }
    let mut q: Vec<A::VarLlr> = llrs.iter().map(|&x| a.llr_to_var_llr(a.input_llr_quantize(x))).collect();
    let mut r: Vec<Vec<A::CheckMessage>> = vec![vec![A::CheckMessage::default(); m.n]; m.r];
    let mut log = Vec::new();
    let cur = |a: &A, q: &[A::VarLlr]| -> Vec<A::Llr> { q.iter().map(|&x| a.var_llr_to_llr(x)).collect() };
    for it in 1..=limit {
        for c in 0..m.r {
            let mut msgs: Vec<SentMessage<A::CheckMessage>> = (0..m.n).filter(|&v| m.get(c, v)).map(|v| SentMessage { dest: v, value: r[c][v] }).collect();
            let before = fmt_pairs(msgs.iter().map(|s| (s.dest, s.value)).collect());
            let vars_before = format!("{:?}", q);
            a.update_check_messages_and_vars(&mut msgs, &mut q);
            for s in &msgs {
                r[c][s.dest] = s.value;
            }
            log.push(format!("{} vars={} => {} tags_ok=true", before, vars_before, fmt_pairs(msgs.iter().map(|s| (s.dest, s.value)).collect())));
        }
        let l = cur(&a, &q);
        let w = hd_word(&a, &l, force);
        if word_ok(m, &w) {
            return RefRun { ok: true, word: w, iters: it, flood_log: vec![], layer_log: log, final_llrs: l.iter().map(|x| format!("{:?}", x)).collect() };
        }
    }
    let l = cur(&a, &q);
    RefRun { ok: false, word: hd_word(&a, &l, force), iters: limit, flood_log: vec![], layer_log: log, final_llrs: l.iter().map(|x| format!("{:?}", x)).collect() }
}

// ------------------------------------------------------------ comparison

type Dec = Result<DecoderOutput, DecoderOutput>;

fn compare(m: &Small, layered: bool, res: &Dec, log: &[Call], reference: &RefRun) -> Result<(), String> {
    let (ok, o) = match res {
        Ok(o) => (true, o),
        Err(o) => (false, o),
    };
    if ok != reference.ok || o.iterations != reference.iters || o.codeword != reference.word {
        return Err(format!(
            "decoder returned {}({:?},{}) but the textbook schedule gives {}({:?},{})",
            if ok { "Ok" } else { "Err" },
            o.codeword,
            o.iterations,
            if reference.ok { "Ok" } else { "Err" },
            reference.word,
            reference.iters
        ));
    }
    if layered {
        let got: Vec<&String> = log
            .iter()
            .map(|c| match c {
                Call::Layer { text, .. } => Ok(text),
                other => Err(format!("layered decoder made a flooding call {:?}", other)),
            })
            .collect::<Result<_, _>>()?;
        if got.len() != reference.layer_log.len() {
            return Err(format!("{} single-check updates, textbook makes {}", got.len(), reference.layer_log.len()));
        }
        for (k, (g, w)) in got.iter().zip(&reference.layer_log).enumerate() {
            if *g != w {
                return Err(format!("single-check update #{} (row {} of iteration {}) was called with/gave {} but the textbook schedule has {}", k, k % m.r, k / m.r + 1, g, w));
            }
        }
    } else {
        let per = m.r + m.n;
        if log.len() != per * reference.flood_log.len() {
            return Err(format!("{} node updates, textbook makes {}", log.len(), per * reference.flood_log.len()));
        }
        for (it, (checks, vars)) in reference.flood_log.iter().enumerate() {
            let chunk = &log[it * per..(it + 1) * per];
            let mut got_checks = Vec::new();
            let mut got_vars = Vec::new();
            for (pos, c) in chunk.iter().enumerate() {
                match c {
                    Call::Check(t) if pos < m.r => got_checks.push(t.clone()),
                    Call::Var { idx, text, ret } if pos >= m.r => got_vars.push((*idx, text.clone(), ret.clone())),
                    other => return Err(format!("iteration {}: call #{} is {:?}: check-node updates must all precede variable updates", it + 1, pos, other)),
                }
            }
            got_checks.sort();
            got_vars.sort();
            if &got_checks != checks {
                return Err(format!("iteration {}: check-node updates {:?}, textbook {:?}", it + 1, got_checks, checks));
            }
            if &got_vars != vars {
                return Err(format!("iteration {}: variable updates {:?}, textbook {:?}", it + 1, got_vars, vars));
            }
        }
    }
    Ok(())
}

/// A generic decoder with a probing arithmetic, kept alive across calls.
enum Live<A: DecoderArithmetic> {
    Flood(flooding::Decoder<Probe<A>>),
    Layer(horizontal_layered::Decoder<Probe<A>>),
}

struct Probed<A: DecoderArithmetic> {
    dec: Live<A>,
    log: Arc<Mutex<Vec<Call>>>,
}

impl<A: DecoderArithmetic> Probed<A> {
    fn new(inner: A, h: ldpc_toolbox::sparse::SparseMatrix, layered: bool, force: Option<usize>) -> Probed<A> {
        let log = Arc::new(Mutex::new(Vec::new()));
        let n = h.num_cols();
        let p = Probe { inner, n, counter: Cell::new(0), force, log: log.clone() };
        let dec = if layered { Live::Layer(horizontal_layered::Decoder::new(h, p)) } else { Live::Flood(flooding::Decoder::new(h, p)) };
        Probed { dec, log }
    }
    /// One decode call; returns the result and the calls logged during it.
    fn decode(&mut self, llrs: &[f64], limit: usize) -> Result<(Dec, Vec<Call>), String> {
        self.log.lock().unwrap().clear();
        let res = match &mut self.dec {
            Live::Flood(d) => guard(|| d.decode(llrs, limit))?,
            Live::Layer(d) => guard(|| d.decode(llrs, limit))?,
        };
        let l = self.log.lock().unwrap().clone();
        Ok((res, l))
    }
}

fn run_probe<A: DecoderArithmetic + Clone + 'static>(inner: A, h: ldpc_toolbox::sparse::SparseMatrix, layered: bool, force: Option<usize>, llrs: &[f64], limit: usize) -> Result<(Dec, Vec<Call>), String> {
    Probed::new(inner, h, layered, force).decode(llrs, limit)
}

struct Case {
    m: Small,
    mname: String,
    order: Vec<(usize, usize)>, // entry insertion order
}

fn build(case: &Case) -> ldpc_toolbox::sparse::SparseMatrix {
    let mut h = ldpc_toolbox::sparse::SparseMatrix::new(case.m.r, case.m.n);
    for &(i, j) in &case.order {
        h.insert(i, j);
    }
    h
}

fn permutations<T: Clone>(v: &[T]) -> Vec<Vec<T>> {
    if v.len() <= 1 {
        return vec![v.to_vec()];
    }
    let mut out = Vec::new();
    for i in 0..v.len() {
        let mut rest = v.to_vec();
        let x = rest.remove(i);
        for mut p in permutations(&rest) {
            p.insert(0, x.clone());
            out.push(p);
        }
    }
    out
}

/// Alphabet entries are integers, except that +-7 stand for +-0.5: a value the integer arithmetic
/// truncates to 0, so that the hard decision on the quantised LLR (1) differs from the sign of the
/// raw LLR (0). The zero-iteration shortcut is defined on the raw signs, everything after it on the
/// arithmetic's own decisions.
fn val(v: i64) -> f64 {
    match v {
        7 => 0.5,
        -7 => -0.5,
        _ => v as f64,
    }
}

fn llr_vectors(n: usize, alpha: &[i64]) -> Vec<Vec<f64>> {
    let k = alpha.len() as u64;
    (0..k.pow(n as u32))
        .map(|mut i| {
            (0..n)
                .map(|_| {
                    let v = val(alpha[(i % k) as usize]);
                    i /= k;
                    v
                })
                .collect()
        })
        .collect()
}

/// LLR vectors for matrices too long for the full alphabet power: a few base sign patterns
/// (codewords and an alternating non-codeword), every single substitution of an alphabet value,
/// and every substitution in two neighbouring positions.
fn wide_vectors(m: &Small, alpha: &[i64]) -> Vec<Vec<f64>> {
    let n = m.n;
    let mut bases: Vec<u64> = Vec::new();
    let mut cw = 0u64;
    // codewords spread over the code: single information-position patterns folded through rows
    for mask in [0u64, 0x5, 0x2a, 0x333, 0xfff, 0x9249] {
        let w = mask & if n >= 64 { u64::MAX } else { (1u64 << n) - 1 };
        if m.syndrome_ok(w) {
            bases.push(w);
        } else {
            cw = w; // a non-codeword base as well
        }
    }
    bases.push(cw);
    bases.push(0);
    bases.push((0..n).filter(|j| j % 2 == 0).fold(0u64, |a, j| a | (1 << j)));
    bases.sort_unstable();
    bases.dedup();
    let mut out = Vec::new();
    for b in bases {
        let base: Vec<f64> = (0..n).map(|j| if (b >> j) & 1 == 1 { -2.0 } else { 2.0 }).collect();
        out.push(base.clone());
        for p in 0..n {
            for &v in alpha {
                let mut x = base.clone();
                x[p] = val(v);
                out.push(x.clone());
                let q = (p + 1) % n;
                for &u in alpha {
                    let mut y = x.clone();
                    y[q] = val(u);
                    out.push(y);
                }
            }
        }
    }
    out.sort_by(|a, b| a.partial_cmp(b).unwrap());
    out.dedup();
    out
}

fn equality_case(case: &Case, alpha: &[i64], limits: &[usize], acc: &mut Acc) {
    let vectors = if case.m.n > 9 { wide_vectors(&case.m, alpha) } else { llr_vectors(case.m.n, alpha) };
    equality_vectors(case, vectors, limits, acc)
}

fn equality_vectors(case: &Case, vectors: Vec<Vec<f64>>, limits: &[usize], acc: &mut Acc) {
    // one long-lived decoder per schedule: every call after the first is made on an object
    // that has already decoded other frames (the textbook result does not depend on history)
    let mut reused = [Probed::new(IntMinSum, build(case), false, None), Probed::new(IntMinSum, build(case), true, None)];
    for llrs in vectors {
        for &limit in limits {
            for layered in [false, true] {
                acc.evals += 1;
                let key = format!("textbook:{}:{}:{:?}:{:?}:L{}", if layered { "layered" } else { "flooding" }, case.mname, case.order, llrs, limit);
                let replay = json!({"kind": "equality", "n": case.m.n, "rows": case.m.rows, "order": case.order, "llrs": llrs, "limit": limit, "layered": layered});
                let reference = if layered { ref_layered(IntMinSum, &case.m, &llrs, limit, None) } else { ref_flooding(IntMinSum, &case.m, &llrs, limit, None) };
                match run_probe(IntMinSum, build(case), layered, None, &llrs, limit) {
                    Err(e) => acc.violate(key, format!("decode panicked: {}", e), replay),
                    Ok((res, log)) => {
                        if let Err(e) = compare(&case.m, layered, &res, &log, &reference) {
                            acc.violate(key, e, replay);
                            continue;
                        }
                        if reference.iters >= 1 {
                            acc.nontrivial += 1;
                        }
                        // the same call on the long-lived decoder
                        match reused[layered as usize].decode(&llrs, limit) {
                            Err(e) => {
                                acc.violate(key, format!("decode on a reused decoder panicked: {}", e), replay);
                                reused[layered as usize] = Probed::new(IntMinSum, build(case), layered, None);
                                continue;
                            }
                            Ok((res2, log2)) => {
                                if let Err(e) = compare(&case.m, layered, &res2, &log2, &reference) {
                                    acc.violate(key, format!("on a decoder object that has decoded earlier frames: {}", e), replay);
                                    continue;
                                }
                                acc.count("calls_on_reused_decoder");
                            }
                        }
                        // plain (unwrapped) user arithmetic as well
                        let plain = if layered {
                            guard(|| horizontal_layered::Decoder::new(build(case), IntMinSum).decode(&llrs, limit))
                        } else {
                            guard(|| flooding::Decoder::new(build(case), IntMinSum).decode(&llrs, limit))
                        };
                        if plain.as_ref().ok() != Some(&res) {
                            acc.violate(key, "plain IntMinSum and probed IntMinSum decoders disagree".into(), replay);
                            continue;
                        }
                        acc.outcome(&(res.is_ok(), reference.iters, reference.word.clone()));
                        if acc.evals % 400_009 == 31 {
                            acc.sample(|| json!({"H": case.m.alist_like(), "insertion_order": case.order, "schedule": if layered { "layered" } else { "flooding" }, "llrs": llrs, "limit": limit, "iterations": reference.iters, "ok": reference.ok, "calls_logged": log.len()}));
                        }
                    }
                }
            }
        }
    }
}

// ------------------------------------------------------------ exactness on forests

fn posterior(m: &Small, cws: &[u64], llrs: &[f64]) -> Option<Vec<f64>> {
    let mut out = Vec::new();
    for i in 0..m.n {
        let mut e0 = Vec::new();
        let mut e1 = Vec::new();
        for &c in cws {
            let e: f64 = -(0..m.n).filter(|&j| (c >> j) & 1 == 1).map(|j| llrs[j]).sum::<f64>();
            if (c >> i) & 1 == 0 {
                e0.push(e)
            } else {
                e1.push(e)
            }
        }
        if e0.is_empty() || e1.is_empty() {
            return None;
        }
        let lse = |xs: &[f64]| {
            let mx = xs.iter().cloned().fold(f64::NEG_INFINITY, f64::max);
            mx + xs.iter().map(|x| (x - mx).exp()).sum::<f64>().ln()
        };
        out.push(lse(&e0) - lse(&e1));
    }
    Some(out)
}

fn diameter(m: &Small) -> usize {
    let g = RefGraph::from_small(m);
    let mut d = 0;
    for v in 0..(m.r + m.n) {
        for x in g.dist(v, None).into_iter().flatten() {
            d = d.max(x);
        }
    }
    d
}

fn exactness_case(m: &Small, order: usize, vals: &[f64], acc: &mut Acc) {
    let cws = m.codewords();
    let n = m.n;
    let diam = diameter(m);
    let c0 = (0..n).find(|&j| m.get(0, j)).unwrap();
    let h_entries = {
        let h = m.sparse_order(order);
        // recover the insertion order actually used (rows lists reflect it)
        let mut e = Vec::new();
        for i in 0..m.r {
            for &j in h.iter_row(i) {
                e.push((i, j));
            }
        }
        e
    };
    let _ = h_entries;
    let kk = vals.len() as u64;
    for mut i in 0..kk.pow(n as u32) {
        let llrs: Vec<f64> = (0..n)
            .map(|_| {
                let v = vals[(i % kk) as usize];
                i /= kk;
                v
            })
            .collect();
        let sign = llrs.iter().enumerate().fold(0u64, |a, (j, &x)| a | (u64::from(x <= 0.0) << j));
        if m.syndrome_ok(sign) {
            continue;
        }
        let Some(post) = posterior(m, &cws, &llrs) else { continue };
        for layered in [false, true] {
            for (which, limit) in [("diameter", diam.max(1)), ("nodes", m.r + m.n)] {
                for arith in ["Phif64", "Tanhf64"] {
                    acc.evals += 1;
                    let key = format!("posterior:{}:{}:{}:{:?}:{}", if layered { "layered" } else { "flooding" }, arith, m.alist_like(), llrs, which);
                    let replay = json!({"kind": "posterior", "n": n, "rows": m.rows, "order": order, "llrs": llrs, "layered": layered, "arith": arith, "limit": limit});
                    let r = if arith == "Phif64" {
                        run_probe(Phif64::new(), m.sparse_order(order), layered, Some(c0), &llrs, limit)
                    } else {
                        run_probe(Tanhf64::new(), m.sparse_order(order), layered, Some(c0), &llrs, limit)
                    };
                    match r {
                        Err(e) => acc.violate(key, format!("decode panicked: {}", e), replay),
                        Ok((res, log)) => {
                            let iters = match &res {
                                Ok(o) | Err(o) => o.iterations,
                            };
                            if res.is_ok() || iters != limit {
                                acc.violate(key, format!("forced-failure arithmetic: decoder returned success or stopped at {} of {} iterations", iters, limit), replay);
                                continue;
                            }
                            // final per-bit LLRs from the call log
                            let mut fin: Vec<Option<f64>> = vec![None; n];
                            if layered {
                                if let Some(Call::Layer { vars_after, .. }) = log.last() {
                                    for (j, s) in vars_after.iter().enumerate() {
                                        fin[j] = s.parse::<f64>().ok();
                                    }
                                }
                            } else {
                                for c in log.iter().rev().take(n) {
                                    if let Call::Var { idx, ret, .. } = c {
                                        fin[*idx] = ret.parse::<f64>().ok();
                                    }
                                }
                            }
                            let mut bad = None;
                            for j in 0..n {
                                match fin[j] {
                                    None => {
                                        bad = Some(format!("no final LLR observed for bit {}", j));
                                        break;
                                    }
                                    Some(x) => {
                                        let tol = 1e-9 * post[j].abs() + 1e-9;
                                        if !((x - post[j]).abs() <= tol) {
                                            bad = Some(format!("bit {}: LLR {:e} after {} iterations, true posterior LLR {:e}", j, x, limit, post[j]));
                                            break;
                                        }
                                    }
                                }
                            }
                            match bad {
                                Some(b) => acc.violate(key, b, replay),
                                None => {
                                    acc.nontrivial += 1;
                                    acc.count("posterior_instances_checked");
                                }
                            }
                        }
                    }
                }
            }
        }
    }
}

const V5: [f64; 5] = [-2.5, -0.7, 0.3, 1.1, 4.0];
const V3: [f64; 3] = [-2.5, 0.3, 4.0];

fn forests(r: usize, n: usize) -> Vec<Small> {
    use rayon::prelude::*;
    (0..(1u64 << (r * n)))
        .into_par_iter()
        .map(|mask| Small::from_mask(r, n, mask))
        .filter(|m| m.min_row_weight() >= 2 && RefGraph::from_small(m).girth().is_none())
        .collect()
}

fn replay_element(v: &Value, acc: &mut Acc) {
    let n = v["n"].as_u64().unwrap() as usize;
    let rows: Vec<u64> = v["rows"].as_array().unwrap().iter().map(|x| x.as_u64().unwrap()).collect();
    let m = Small { r: rows.len(), n, rows };
    match v["kind"].as_str() {
        Some("equality") => {
            let order: Vec<(usize, usize)> = v["order"].as_array().unwrap().iter().map(|p| (p[0].as_u64().unwrap() as usize, p[1].as_u64().unwrap() as usize)).collect();
            let llrs: Vec<f64> = v["llrs"].as_array().unwrap().iter().map(|x| x.as_f64().unwrap()).collect();
            let limit = v["limit"].as_u64().unwrap() as usize;
            let layered = v["layered"].as_bool().unwrap();
            let case = Case { m: m.clone(), mname: "replay".into(), order };
            acc.evals += 1;
            let reference = if layered { ref_layered(IntMinSum, &m, &llrs, limit, None) } else { ref_flooding(IntMinSum, &m, &llrs, limit, None) };
            match run_probe(IntMinSum, build(&case), layered, None, &llrs, limit) {
                Err(e) => acc.violate("textbook:replay".into(), e, v.clone()),
                Ok((res, log)) => {
                    if let Err(e) = compare(&m, layered, &res, &log, &reference) {
                        acc.violate("textbook:replay".into(), e, v.clone());
                    }
                }
            }
        }
        Some("posterior") => exactness_case(&m, v["order"].as_u64().unwrap_or(0) as usize, &V5, acc),
        _ => machinery("C03: unknown replay element"),
    }
}

pub fn run(run: &Run) -> i32 {
    let mut acc = Acc::new();
    let mut extra = serde_json::Map::new();
    if let Some(p) = &run.replay {
        let v: Value = serde_json::from_str(&std::fs::read_to_string(p).unwrap_or_else(|_| machinery("cannot read replay"))).unwrap_or_else(|_| machinery("bad replay json"));
        replay_element(&v["element"], &mut acc);
    } else {
        let limits = [0usize, 1, 2, 3, 4];
        let a7: Vec<i64> = vec![-3, -2, -1, 0, 1, 2, 3];
        let a5: Vec<i64> = vec![-2, -1, 0, 1, 3];
        let a3: Vec<i64> = vec![-2, 0, 1];
        // (cases, alphabet)
        let mut work: Vec<(Case, Vec<i64>)> = Vec::new();
        let m2 = |r: usize, n: usize| -> Vec<Small> { (0..(1u64 << (r * n))).map(|k| Small::from_mask(r, n, k)).filter(|m| m.min_row_weight() >= 2).collect() };
        for m in m2(2, 3) {
            // every insertion order of the entries
            for order in permutations(&m.entries()) {
                work.push((Case { m: m.clone(), mname: format!("2x3:{}", m.alist_like()), order }, a7.clone()));
            }
        }
        let scrambled = |m: &Small, k: usize| -> Vec<(usize, usize)> {
            let h = m.sparse_order(k);
            // sparse_order inserts entries in a scrambled sequence; read it back from a column-major / row-major merge
            let mut e = m.entries();
            match k % 4 {
                0 => {}
                1 => e.reverse(),
                2 => e.sort_by_key(|&(i, j)| (j, std::cmp::Reverse(i))),
                _ => {
                    let (a, b): (Vec<_>, Vec<_>) = e.iter().cloned().enumerate().partition(|(k, _)| k % 2 == 0);
                    e = b.into_iter().map(|(_, x)| x).chain(a.into_iter().rev().map(|(_, x)| x)).collect();
                }
            }
            let _ = h;
            e
        };
        for m in m2(2, 4) {
            for k in 1..4 {
                work.push((Case { m: m.clone(), mname: format!("2x4:{}", m.alist_like()), order: scrambled(&m, k) }, if run.thorough() { a7.clone() } else { a5.clone() }));
            }
        }
        for m in m2(3, 4) {
            // quick: one scrambled order with the integer alphabet (a second order comes with the
            // half-step alphabet below)
            for k in if run.thorough() { vec![1, 2, 3] } else { vec![3] } {
                work.push((Case { m: m.clone(), mname: format!("3x4:{}", m.alist_like()), order: scrambled(&m, k) }, if run.thorough() { a7.clone() } else { a3.clone() }));
            }
        }
        if run.thorough() {
            for m in m2(3, 5) {
                for k in [1, 3] {
                    work.push((Case { m: m.clone(), mname: format!("3x5:{}", m.alist_like()), order: scrambled(&m, k) }, a3.clone()));
                }
            }
        }
        // sub-quantum LLRs (+0.5 truncates to 0: quantised decision 1, raw sign 0)
        let h3: Vec<i64> = vec![-2, 7, 1];
        let h4: Vec<i64> = vec![-2, 7, 1, -7];
        for m in m2(2, 3) {
            work.push((Case { m: m.clone(), mname: format!("2x3:{}", m.alist_like()), order: scrambled(&m, 2) }, h4.clone()));
        }
        for m in m2(2, 4) {
            work.push((Case { m: m.clone(), mname: format!("2x4:{}", m.alist_like()), order: scrambled(&m, 0) }, if run.thorough() { h4.clone() } else { h3.clone() }));
        }
        for m in m2(3, 4) {
            work.push((Case { m: m.clone(), mname: format!("3x4:{}", m.alist_like()), order: scrambled(&m, 2) }, h3.clone()));
        }
        for (name, m) in named() {
            if m.n <= 6 || run.thorough() {
                work.push((Case { m: m.clone(), mname: name.to_string(), order: scrambled(&m, 0) }, h3.clone()));
            }
        }
        // all-zero rows (vacuous checks) in every position, other rows of weight >= 2
        {
            let rows3: Vec<u64> = vec![0b000, 0b011, 0b101, 0b110, 0b111];
            for idx in 0..5usize.pow(4) {
                let rows: Vec<u64> = (0..4).map(|i| rows3[(idx / 5usize.pow(i)) % 5]).collect();
                if !rows.contains(&0) || rows.iter().all(|&r| r == 0) {
                    continue;
                }
                let m = Small { r: 4, n: 3, rows };
                for k in if run.thorough() { vec![0, 2] } else { vec![2] } {
                    work.push((Case { m: m.clone(), mname: format!("zero-rows4x3:{}", m.alist_like()), order: scrambled(&m, k) }, a5.clone()));
                }
            }
        }
        for (name, m) in named() {
            for k in 1..4 {
                let alpha = if run.thorough() { a5.clone() } else if m.n <= 5 { a5.clone() } else { a3.clone() };
                work.push((Case { m: m.clone(), mname: name.to_string(), order: scrambled(&m, k) }, alpha));
            }
        }
        // check degrees above 8 and above 16, non-monotone (vectors: see wide_vectors)
        for (name, m) in [
            ("wide2x12", Small::from_rows(12, &[&[0, 1, 2, 3, 4, 5, 6, 7, 8], &[2, 3, 4, 5, 6, 7, 8, 9, 10, 11]])),
            ("wide3x20", Small::from_rows(20, &[&[0, 1, 2, 3, 4, 5, 6, 7, 8, 9, 10, 11, 12, 13, 14, 15, 16], &[3, 5, 7, 9, 11, 13, 15, 17, 19], &[1, 2, 3, 4, 5, 6, 7, 8, 9, 10, 11, 12, 13, 14, 15, 17, 18, 19]])),
            // degrees just past 32 and at 64 (the widest a 64-bit row mask can hold)
            ("wide1x33", Small { r: 1, n: 33, rows: vec![(1u64 << 33) - 1] }),
            ("wide2x34", Small { r: 2, n: 34, rows: vec![(1u64 << 32) - 1, ((1u64 << 33) - 1) << 1] }),
            ("wide2x64", Small { r: 2, n: 64, rows: vec![u64::MAX, ((1u64 << 33) - 1) << 10] }),
            ("tall33x2", Small { r: 33, n: 2, rows: vec![3u64; 33] }),
        ] {
            if name == "wide2x64" && !run.thorough() {
                continue;
            }
            for k in if run.thorough() { vec![0, 1, 2, 3] } else if m.n > 30 { vec![2] } else { vec![1, 2] } {
                work.push((Case { m: m.clone(), mname: name.to_string(), order: scrambled(&m, k) }, if run.thorough() { a5.clone() } else { a3.clone() }));
            }
        }
        extra.insert("equality_cases".into(), json!(work.len()));
        acc = par_items(&work, |(case, alpha), a| equality_case(case, alpha, &limits, a));
        // exactness on forests
        let mut items: Vec<(Small, usize, Vec<f64>)> = Vec::new();
        // (shape, alphabet, insertion orders)
        let plan: Vec<((usize, usize), Vec<f64>, Vec<usize>)> = if run.thorough() {
            vec![
                ((1, 2), V5.to_vec(), vec![1, 2]),
                ((1, 3), V5.to_vec(), vec![1, 2]),
                ((2, 3), V5.to_vec(), vec![1, 2]),
                ((2, 4), V5.to_vec(), vec![1, 2]),
                ((3, 4), V5.to_vec(), vec![1, 2]),
                ((2, 5), V5.to_vec(), vec![1, 2]),
                ((3, 5), V5.to_vec(), vec![1]),
                ((3, 6), V3.to_vec(), vec![2]),
                ((4, 5), V3.to_vec(), vec![1]),
            ]
        } else {
            vec![
                ((1, 2), V5.to_vec(), vec![1, 2]),
                ((1, 3), V5.to_vec(), vec![1, 2]),
                ((2, 3), V5.to_vec(), vec![1, 2]),
                ((2, 4), V5.to_vec(), vec![1]),
                ((3, 4), V5.to_vec(), vec![2]),
                ((2, 5), V3.to_vec(), vec![1]),
                ((3, 5), V3.to_vec(), vec![3]),
            ]
        };
        let mut nforests = 0usize;
        for ((r, n), alpha, orders) in plan {
            for m in forests(r, n) {
                nforests += 1;
                for &o in &orders {
                    items.push((m.clone(), o, alpha.clone()));
                }
            }
        }
        extra.insert("forests".into(), json!(nforests));
        let a2 = par_items(&items, |(m, order, alpha), a| exactness_case(m, *order, alpha, a));
        acc = acc.merge(a2);
    }
    finish(
        run,
        acc,
        Coverage {
            rule: "equality clause: generic flooding and layered decoders instantiated with a checker-supplied exact integer min-sum arithmetic inside a probing wrapper (tags every LLR with its variable index, logs every trait call with arguments and results); every matrix with row weights >= 2 of shapes 2x3 (EVERY insertion order of its entries), 2x4, 3x4 (three scrambled insertion orders), every 4x3 matrix with at least one all-zero row and the other rows of weight >= 2, and six named matrices x LLR in an integer alphabet ^n (one pass per shape with +-0.5 in the alphabet: the integer arithmetic truncates it to 0, so the decision on the quantised LLR differs from the raw sign the zero-iteration shortcut uses) x limits {0..4}; verdict/word/iterations AND the normalised call log (one check update per row then one variable update per column per flooding iteration; row-ordered single-check updates with the variable vector seen at call time for layered) must equal a textbook implementation, both on a fresh decoder and on one long-lived decoder per (matrix, schedule) that has already decoded all earlier frames of the enumeration. Exactness clause: every forest (reference acyclicity test) with check degree >= 2 of the listed shapes, all labellings, LLR in {-2.5,-0.7,0.3,1.1,4}^n (3-value sub-alphabet for the largest shapes) with non-codeword sign pattern, Phif64 and Tanhf64 inside a forcing wrapper (syndrome test always fails), both schedules, limits = diameter and = number of nodes: final per-bit LLR vs brute-force posterior within 1e-9 rel + 1e-9 abs. Non-trivial = at least one iteration run.".into(),
            exhaustive: true,
            extra,
            graph: None,
            assumptions: vec!["arithmetics other than the three checker-supplied ones are covered by parametricity of the generic decoders in A".into()],
        },
    )
}
