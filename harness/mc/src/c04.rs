//! C04 — every arithmetic's check-node message is a faithful (approximate)
//! box-plus. E-enum: all 24 arithmetic types called directly through
//! `DecoderArithmetic::send_check_messages` with shuffled, non-contiguous
//! source tags; 8-bit types exhaustively for degrees 2 and 3.

use crate::arith::*;
use crate::common::*;
use crate::with_arith;
use serde_json::{json, Value};

const LN2: f64 = std::f64::consts::LN_2;

fn tags(d: usize) -> Vec<usize> {
    // distinct, non-contiguous, not sorted
    if d <= 31 {
        return (0..d).map(|i| (i * 7 + 3) % 31 + if i % 2 == 0 { 40 } else { 0 }).collect();
    }
    // larger degrees: a permutation of 0..p (p prime > d) shifted for even positions
    let p = (d + 1..).find(|&x| (2..x).take_while(|q| q * q <= x).all(|q| x % q != 0)).unwrap();
    (0..d).map(|i| (i * 7 + 3) % p + if i % 2 == 0 { 2 * p } else { 0 }).collect()
}

#[derive(Copy, Clone, PartialEq, Eq, Debug)]
enum Kind {
    Phi,
    Tanh,
    MinstarApprox,
    Aminstar,
}

fn kind_of(name: &str) -> Kind {
    if name.starts_with("Phi") {
        Kind::Phi
    } else if name.starts_with("Tanh") {
        Kind::Tanh
    } else if name.starts_with("Minstarapprox") {
        Kind::MinstarApprox
    } else {
        Kind::Aminstar
    }
}

/// Routing clause: exactly one message per neighbour, addressed by tag.
fn routed<V: Num>(out: &[(usize, V)], tg: &[usize]) -> Result<Vec<V>, String> {
    if out.len() != tg.len() {
        return Err(format!("{} messages emitted for {} neighbours", out.len(), tg.len()));
    }
    let mut res = Vec::with_capacity(tg.len());
    for &t in tg {
        let hits: Vec<&(usize, V)> = out.iter().filter(|(d, _)| *d == t).collect();
        if hits.len() != 1 {
            return Err(format!("{} messages addressed to neighbour {}", hits.len(), t));
        }
        res.push(hits[0].1);
    }
    Ok(res)
}

struct FloatStats {
    worst_ratio: f64,
}

fn judge_float<A: Arith>(name: &str, a: &mut A, raw: &[f64], acc: &mut Acc, st: &mut FloatStats) {
    let kind = kind_of(name);
    let d = raw.len();
    let tg = tags(d);
    let vals_v: Vec<A::V> = raw.iter().map(|&x| A::V::of(x)).collect();
    let vals: Vec<f64> = vals_v.iter().map(|v| v.f()).collect();
    let msgs: Vec<(usize, A::V)> = tg.iter().cloned().zip(vals_v.iter().cloned()).collect();
    acc.evals += 1;
    let key = format!("check:{}:{:?}", name, vals);
    let replay = json!({"kind": "float", "name": name, "vals": raw});
    let out = match guard(|| send_check(a, &msgs)) {
        Ok(o) => o,
        Err(e) => {
            acc.violate(key, format!("send_check_messages panicked: {}", e), replay);
            *a = A::default();
            return;
        }
    };
    let outs = match routed(&out, &tg) {
        Ok(o) => o,
        Err(e) => {
            acc.violate(key, e, replay);
            return;
        }
    };
    let eps = A::V::EPS;
    let mags: Vec<f64> = vals.iter().map(|x| x.abs()).collect();
    let all_exact = boxplus_all(&mags);
    let minmag = mags.iter().cloned().fold(f64::INFINITY, f64::min);
    // phi bookkeeping for the conditioning bound
    let phi = |x: f64| -(((0.5 * x.max(1e-30)).tanh()).ln());
    let phis: Vec<f64> = mags.iter().map(|&m| phi(m)).collect();
    let phi_sum: f64 = phis.iter().sum();
    let mut informative = false;
    for i in 0..d {
        let o = outs[i].f();
        let others: Vec<f64> = (0..d).filter(|&j| j != i).map(|j| mags[j]).collect();
        let neg_others = (0..d).filter(|&j| j != i && vals[j] < 0.0).count();
        let exact = boxplus_all(&others);
        let min_others = others.iter().cloned().fold(f64::INFINITY, f64::min);
        if !o.is_finite() {
            acc.violate(key, format!("message to neighbour {} is {:?}", i, o), replay);
            return;
        }
        if o.abs() > 70.0 {
            acc.violate(key, format!("message to neighbour {} has magnitude {:e}", i, o.abs()), replay);
            return;
        }
        // which exact value is this message supposed to approximate?
        let tied_min = mags[i] == minmag;
        let is_first_min = tied_min && (0..i).all(|j| mags[j] != minmag);
        let (targets, y): (Vec<f64>, f64) = match kind {
            Kind::Aminstar => {
                if is_first_min && mags.iter().filter(|&&m| m == minmag).count() == 1 {
                    (vec![exact], exact)
                } else if tied_min {
                    (vec![exact, all_exact], exact)
                } else {
                    (vec![all_exact], all_exact)
                }
            }
            _ => (vec![exact], exact),
        };
        let tau = match kind {
            Kind::Tanh => 8.0 * d as f64 * eps * (y.sinh() + y + 1.0),
            Kind::Phi => {
                let s_i = phi_sum - phis[i];
                let num = d as f64 * phi_sum + phis.iter().map(|p| p + 0.5).sum::<f64>();
                if s_i <= 0.0 {
                    f64::INFINITY
                } else {
                    8.0 * eps * num / s_i.sinh() + 8.0 * eps * (1.0 + y)
                }
            }
            Kind::MinstarApprox | Kind::Aminstar => 16.0 * d as f64 * eps * (1.0 + y),
        };
        let well = tau <= 0.1;
        if well {
            informative = true;
        } else {
            acc.count(&format!("{}:ill_conditioned_outputs", name));
        }
        let tau_c = if well { tau } else { f64::INFINITY };
        // (2) sign
        if well && o.abs() > tau {
            let want_neg = neg_others % 2 == 1;
            if (o < 0.0) != want_neg {
                acc.violate(key, format!("message to neighbour {} is {:e}: sign differs from the product of the other signs", i, o), replay);
                return;
            }
        }
        // (3) magnitude never exceeds the smallest other magnitude
        if o.abs() > min_others + tau_c {
            acc.violate(key, format!("message to neighbour {} has magnitude {:e} > smallest other magnitude {:e} (tol {:e})", i, o.abs(), min_others, tau), replay);
            return;
        }
        if !well {
            continue;
        }
        match kind {
            Kind::MinstarApprox => {
                let lo = (exact - (d as f64 - 2.0) * LN2).max(0.0) - tau;
                let hi = exact + tau;
                if o.abs() < lo || o.abs() > hi {
                    acc.violate(key, format!("message to neighbour {} has magnitude {:e} outside [{:e}, {:e}] (exact box-plus {:e})", i, o.abs(), lo, hi, exact), replay);
                    return;
                }
                let r = ((o.abs() - exact).max(0.0)) / tau;
                if r > st.worst_ratio {
                    st.worst_ratio = r;
                }
            }
            _ => {
                let err = targets.iter().map(|t| (o.abs() - t).abs()).fold(f64::INFINITY, f64::min);
                if err > tau {
                    acc.violate(key, format!("message to neighbour {} has magnitude {:e}, exact box-plus {:?} (tol {:e})", i, o.abs(), targets, tau), replay);
                    return;
                }
                let r = err / tau;
                if r > st.worst_ratio {
                    st.worst_ratio = r;
                }
            }
        }
    }
    if informative {
        acc.nontrivial += 1;
    }
    if acc.evals % 300_007 == 5 {
        acc.sample(|| json!({"arith": name, "inputs": vals, "outputs": outs.iter().map(|v| v.f()).collect::<Vec<_>>()}));
    }
}

fn float_alphabet(name: &str) -> Vec<f64> {
    if name.ends_with("f32") {
        vec![0.0, 1e-3, -1e-3, 0.2, -0.2, 1.3, -1.3, 4.0, -4.0, 8.5, -8.5, 15.0, -15.0]
    } else {
        vec![0.0, 1e-3, -1e-3, 0.2, -0.2, 1.3, -1.3, 4.0, -4.0, 12.5, -12.5, 30.0, -30.0]
    }
}

fn float_vectors(alpha: &[f64], thorough: bool) -> Vec<Vec<f64>> {
    let mut out = Vec::new();
    let k = alpha.len() as u64;
    let dmax = if thorough { 5 } else { 4 };
    for d in 2..=dmax {
        for mut i in 0..k.pow(d as u32) {
            let mut v = Vec::with_capacity(d);
            for _ in 0..d {
                v.push(alpha[(i % k) as usize]);
                i /= k;
            }
            out.push(v);
        }
    }
    let ds: Vec<usize> = if thorough { vec![6, 8, 13, 20, 30] } else { vec![5, 6, 13, 30] };
    for &d in &ds {
        let places = [0usize, 1, d / 2, d - 2, d - 1];
        for &bg in alpha {
            out.push(vec![bg; d]);
            for mask in 1u32..32 {
                let pos: Vec<usize> = (0..5).filter(|b| (mask >> b) & 1 == 1).map(|b| places[b]).collect();
                if pos.len() > 3 {
                    continue;
                }
                let mut uniq = pos.clone();
                uniq.dedup();
                if uniq.len() != pos.len() {
                    continue;
                }
                let sub: Vec<f64> = if pos.len() == 3 && !thorough {
                    vec![0.0, 0.2, -1.3, 4.0, alpha[alpha.len() - 1]]
                } else {
                    alpha.to_vec()
                };
                let kk = sub.len() as u64;
                for mut i in 0..kk.pow(pos.len() as u32) {
                    let mut v = vec![bg; d];
                    for &p in &pos {
                        v[p] = sub[(i % kk) as usize];
                        i /= kk;
                    }
                    out.push(v);
                }
            }
        }
    }
    // degrees just past 16, 32, 64, 128, 256: a background value with at most two deviating positions
    // (positions include d-33 and d-32, where a 32-entry window would begin)
    let bigs: Vec<usize> = if thorough { vec![17, 31, 32, 33, 34, 63, 64, 65, 66, 129, 257, 513] } else { vec![17, 33, 34, 65, 129] };
    for &d in &bigs {
        let mut places = vec![0usize, 1, d / 2, d - 2, d - 1];
        if d >= 34 {
            places.extend([d - 33, d - 32]);
        }
        places.sort_unstable();
        places.dedup();
        let sub = [0.0, -1.3, 4.0, alpha[alpha.len() - 1]];
        let bgs: &[f64] = if d >= 65 && !thorough { &[1.3, -0.2] } else { &[1.3, -1.3, 4.0, -0.2] };
        for &bg in bgs {
            out.push(vec![bg; d]);
            for (ia, &pa) in places.iter().enumerate() {
                for &xa in &sub {
                    let mut v = vec![bg; d];
                    v[pa] = xa;
                    out.push(v.clone());
                    for &pb in places.iter().skip(ia + 1) {
                        for &xb in &sub {
                            let mut w = v.clone();
                            w[pb] = xb;
                            out.push(w);
                        }
                    }
                }
            }
        }
    }
    out
}

fn i8_big(thorough: bool) -> Vec<Vec<i8>> {
    let mut out = Vec::new();
    let bigs: Vec<usize> = if thorough { vec![17, 31, 32, 33, 34, 63, 64, 65, 66, 129, 257, 513] } else { vec![17, 33, 34, 65] };
    for &d in &bigs {
        let mut places = vec![0usize, 1, d / 2, d - 2, d - 1];
        if d >= 34 {
            places.extend([d - 33, d - 32]);
        }
        places.sort_unstable();
        places.dedup();
        let sub: [i8; 4] = [-127, 99, 0, -1];
        for &bg in &[127i8, -100, 1, -37] {
            out.push(vec![bg; d]);
            for (ia, &pa) in places.iter().enumerate() {
                for &xa in &sub {
                    let mut v = vec![bg; d];
                    v[pa] = xa;
                    out.push(v.clone());
                    for &pb in places.iter().skip(ia + 1) {
                        for &xb in &sub {
                            let mut w = v.clone();
                            w[pb] = xb;
                            out.push(w);
                        }
                    }
                }
            }
        }
    }
    out
}

// ---------------------------------------------------------------- 8-bit

trait Rule8: Send {
    fn check(&mut self, msgs: &[(usize, i8)]) -> Vec<(usize, i8)>;
}

impl<A: Arith<V = i8> + Send> Rule8 for A {
    fn check(&mut self, msgs: &[(usize, i8)]) -> Vec<(usize, i8)> {
        send_check(self, msgs)
    }
}

fn rules8() -> Vec<(&'static str, Box<dyn Rule8>)> {
    let mut v: Vec<(&'static str, Box<dyn Rule8>)> = Vec::new();
    for name in crate::dec::ARITHMETICS.iter().filter(|n| n.contains("i8")) {
        let b: Box<dyn Rule8> = with_arith8(name);
        v.push((name, b));
    }
    v
}

fn with_arith8(name: &str) -> Box<dyn Rule8> {
    use ldpc_toolbox::decoder::arithmetic::*;
    match name {
        "Minstarapproxi8" => Box::new(Minstarapproxi8::new()),
        "Minstarapproxi8Jones" => Box::new(Minstarapproxi8Jones::new()),
        "Minstarapproxi8PartialHardLimit" => Box::new(Minstarapproxi8PartialHardLimit::new()),
        "Minstarapproxi8JonesPartialHardLimit" => Box::new(Minstarapproxi8JonesPartialHardLimit::new()),
        "Minstarapproxi8Deg1Clip" => Box::new(Minstarapproxi8Deg1Clip::new()),
        "Minstarapproxi8JonesDeg1Clip" => Box::new(Minstarapproxi8JonesDeg1Clip::new()),
        "Minstarapproxi8PartialHardLimitDeg1Clip" => Box::new(Minstarapproxi8PartialHardLimitDeg1Clip::new()),
        "Minstarapproxi8JonesPartialHardLimitDeg1Clip" => Box::new(Minstarapproxi8JonesPartialHardLimitDeg1Clip::new()),
        "Aminstari8" => Box::new(Aminstari8::new()),
        "Aminstari8Jones" => Box::new(Aminstari8Jones::new()),
        "Aminstari8PartialHardLimit" => Box::new(Aminstari8PartialHardLimit::new()),
        "Aminstari8JonesPartialHardLimit" => Box::new(Aminstari8JonesPartialHardLimit::new()),
        "Aminstari8Deg1Clip" => Box::new(Aminstari8Deg1Clip::new()),
        "Aminstari8JonesDeg1Clip" => Box::new(Aminstari8JonesDeg1Clip::new()),
        "Aminstari8PartialHardLimitDeg1Clip" => Box::new(Aminstari8PartialHardLimitDeg1Clip::new()),
        "Aminstari8JonesPartialHardLimitDeg1Clip" => Box::new(Aminstari8JonesPartialHardLimitDeg1Clip::new()),
        _ => machinery("not an 8-bit arithmetic"),
    }
}

/// Judges the outputs of one 8-bit rule for one input vector.
fn judge8(name: &str, vals: &[i8], outs: &[i8]) -> Result<(), String> {
    let d = vals.len();
    let approx = name.starts_with("Minstarapprox");
    let phl = name.contains("PartialHardLimit");
    let mags: Vec<f64> = vals.iter().map(|&v| (v as f64).abs() / 8.0).collect();
    let imags: Vec<i32> = vals.iter().map(|&v| (v as i32).abs()).collect();
    let minmag = *imags.iter().min().unwrap();
    let ties = imags.iter().filter(|&&m| m == minmag).count();
    let all_exact = 8.0 * boxplus_all(&mags);
    for i in 0..d {
        let o = outs[i] as i32;
        if o == -128 {
            return Err(format!("message to neighbour {} is -128", i));
        }
        let others: Vec<f64> = (0..d).filter(|&j| j != i).map(|j| mags[j]).collect();
        let min_others = (0..d).filter(|&j| j != i).map(|j| imags[j]).min().unwrap();
        let neg_others = (0..d).filter(|&j| j != i && vals[j] < 0).count();
        let exact = 8.0 * boxplus_all(&others);
        // candidate (real-valued target in units, lookups on the path)
        let mut cands: Vec<(f64, f64, f64)> = Vec::new(); // (lo, hi, centre)
        if approx {
            let l = (d - 2) as f64;
            let chain = 8.0 * minstar_approx_chain(&others);
            // tracks its real-valued counterpart within accumulated table rounding, and
            // lies between exact - (d-2) ln2 (floored at 0) and exact
            let lo = (chain - 0.5 * l).max((exact - 8.0 * l * LN2).max(0.0) - 0.5 * l) - 1e-9;
            let hi = (chain + 0.5 * l).min(exact + 0.5 * l) + 1e-9;
            cands.push((lo, hi, chain));
        } else {
            let to_min = (exact - 0.5 * 2.0 * (d as f64 - 2.0) - 1e-9, exact + 0.5 * 2.0 * (d as f64 - 2.0) + 1e-9, exact);
            let to_other = (all_exact - 0.5 * 2.0 * (d as f64 - 1.0) - 1e-9, all_exact + 0.5 * 2.0 * (d as f64 - 1.0) + 1e-9, all_exact);
            if imags[i] == minmag {
                cands.push(to_min);
                if ties > 1 {
                    cands.push(to_other);
                }
            } else {
                cands.push(to_other);
            }
        }
        let mag = o.abs() as f64;
        let fits = |m: f64| cands.iter().any(|&(lo, hi, _)| m >= lo && m <= hi);
        let may_promote = cands.iter().any(|&(_, hi, _)| hi >= 100.0);
        let must_promote = cands.iter().all(|&(lo, _, _)| lo >= 100.0);
        let promoted = phl && o.abs() == 127 && may_promote;
        if phl && (100..127).contains(&o.abs()) {
            return Err(format!("partial hard limiting left magnitude {} in [100,126] (neighbour {})", o.abs(), i));
        }
        if phl && must_promote && o.abs() != 127 {
            return Err(format!("un-limited value is at least 100 but message to neighbour {} is {}", i, o));
        }
        if !promoted {
            if !fits(mag) {
                return Err(format!("message to neighbour {} is {} but the real-valued rule at 8 units/LLR gives {:?} (lo,hi,centre)", i, o, cands));
            }
            if o.abs() > min_others {
                return Err(format!("message to neighbour {} has magnitude {} > smallest other magnitude {}", i, o.abs(), min_others));
            }
        }
        if o != 0 {
            let want_neg = neg_others % 2 == 1;
            if (o < 0) != want_neg {
                return Err(format!("message to neighbour {} is {}: sign differs from the product of the other signs", i, o));
            }
        }
    }
    Ok(())
}

fn run8(vals: &[i8], rules: &mut [(&'static str, Box<dyn Rule8>)], acc: &mut Acc) {
    let d = vals.len();
    let tg = tags(d);
    let msgs: Vec<(usize, i8)> = tg.iter().cloned().zip(vals.iter().cloned()).collect();
    for (name, rule) in rules.iter_mut() {
        acc.evals += 1;
        let key = format!("check:{}:{:?}", name, vals);
        let replay = json!({"kind": "i8", "name": name, "vals": vals});
        let out = match guard(|| rule.check(&msgs)) {
            Ok(o) => o,
            Err(e) => {
                acc.violate(key, format!("send_check_messages panicked: {}", e), replay);
                *rule = with_arith8(name);
                continue;
            }
        };
        match routed(&out, &tg).and_then(|outs| judge8(name, vals, &outs).map(|_| outs)) {
            Ok(outs) => {
                if vals.iter().all(|&v| v != 0) {
                    acc.nontrivial += 1;
                }
                if acc.evals % 5_000_011 == 17 {
                    acc.sample(|| json!({"arith": name, "inputs": vals, "outputs": outs}));
                }
            }
            Err(e) => acc.violate(key, e, replay),
        }
    }
}

fn i8_profiles(thorough: bool) -> Vec<Vec<i8>> {
    let pool: [i8; 11] = [127, -127, 100, -100, 99, -99, 1, -1, 0, 50, -37];
    let ds: Vec<usize> = if thorough { vec![4, 5, 6, 8, 13, 20, 30] } else { vec![4, 5, 8, 30] };
    let mut out = Vec::new();
    for a in 0..pool.len() {
        for b in (a + 1)..pool.len() {
            for c in (b + 1)..pool.len() {
                if !thorough && (a + b + c) % 3 != 0 {
                    continue;
                }
                for &d in &ds {
                    for i in 0..=d {
                        for j in 0..=(d - i) {
                            let k = d - i - j;
                            let mut v = Vec::with_capacity(d);
                            v.extend(std::iter::repeat(pool[a]).take(i));
                            v.extend(std::iter::repeat(pool[b]).take(j));
                            v.extend(std::iter::repeat(pool[c]).take(k));
                            out.push(v.clone());
                            // second ordering: interleaved from both ends
                            let mut w = Vec::with_capacity(d);
                            let (mut lo, mut hi) = (0usize, d);
                            while lo < hi {
                                w.push(v[lo]);
                                lo += 1;
                                if lo < hi {
                                    hi -= 1;
                                    w.push(v[hi]);
                                }
                            }
                            out.push(w);
                        }
                    }
                }
            }
        }
    }
    out
}

fn replay_element(v: &Value, acc: &mut Acc) {
    let name = v["name"].as_str().unwrap().to_string();
    match v["kind"].as_str() {
        Some("i8") => {
            let vals: Vec<i8> = v["vals"].as_array().unwrap().iter().map(|x| x.as_i64().unwrap() as i8).collect();
            let mut rules: Vec<(&'static str, Box<dyn Rule8>)> = rules8().into_iter().filter(|(n, _)| *n == name).collect();
            run8(&vals, &mut rules, acc);
        }
        Some("float") => {
            let vals: Vec<f64> = v["vals"].as_array().unwrap().iter().map(|x| x.as_f64().unwrap()).collect();
            let mut st = FloatStats { worst_ratio: 0.0 };
            with_arith!(name.as_str(), A, {
                float_one::<A>(&name, &vals, acc, &mut st);
            });
        }
        _ => machinery("C04: unknown replay element"),
    }
}

fn float_one<A: Arith>(name: &str, vals: &[f64], acc: &mut Acc, st: &mut FloatStats) {
    if A::V::INT {
        return;
    }
    let mut a = A::default();
    judge_float::<A>(name, &mut a, vals, acc, st);
}

fn gcd(a: usize, b: usize) -> usize {
    if b == 0 {
        a
    } else {
        gcd(b, a % b)
    }
}

fn float_sweep<A: Arith>(name: &str, vecs: &[Vec<f64>]) -> (Acc, f64) {
    use rayon::prelude::*;
    // Each chunk is processed by ONE arithmetic object, in a stride order that mixes the degrees
    // (so a node of small degree is evaluated after nodes of larger degree and vice versa: scratch
    // state kept inside the arithmetic must not leak from one check node into the next).
    let nchunks = vecs.len().div_ceil(4096).max(1);
    let res: Vec<(Acc, f64)> = (0..nchunks)
        .into_par_iter()
        .map(|c| {
            let mut acc = Acc::new();
            let mut st = FloatStats { worst_ratio: 0.0 };
            let mut a = A::default();
            // multiplicative permutation of the index range (bijection: multiplier coprime with len)
            let len = vecs.len();
            let mut mult = 7919usize;
            while gcd(mult, len) != 1 {
                mult += 2;
            }
            let mut j = c;
            while j < len {
                let i = (j.wrapping_mul(mult) + 13) % len;
                judge_float::<A>(name, &mut a, &vecs[i], &mut acc, &mut st);
                j += nchunks;
            }
            (acc, st.worst_ratio)
        })
        .collect();
    let mut acc = Acc::new();
    let mut worst = 0.0f64;
    for (a, w) in res {
        acc = acc.merge(a);
        worst = worst.max(w);
    }
    (acc, worst)
}

pub fn run(run: &Run) -> i32 {
    let mut acc = Acc::new();
    let mut extra = serde_json::Map::new();
    if let Some(p) = &run.replay {
        let v: Value = serde_json::from_str(&std::fs::read_to_string(p).unwrap_or_else(|_| machinery("cannot read replay"))).unwrap_or_else(|_| machinery("bad replay json"));
        replay_element(&v["element"], &mut acc);
    } else {
        // float types
        let mut worst = serde_json::Map::new();
        for name in crate::dec::ARITHMETICS.iter().filter(|n| !n.contains("i8")) {
            let vecs = float_vectors(&float_alphabet(name), run.thorough());
            let (a, w) = with_arith!(*name, A, { float_sweep::<A>(name, &vecs) });
            worst.insert(name.to_string(), json!(w));
            acc = acc.merge(a);
        }
        extra.insert("worst_observed_error_over_tolerance".into(), Value::Object(worst));
        // 8-bit: degrees 2 and 3 exhaustively
        use rayon::prelude::*;
        let a2: Acc = (0..255u32 * 255)
            .into_par_iter()
            .fold(
                || (Acc::new(), rules8()),
                |(mut a, mut rules), i| {
                    let x = (i / 255) as i32 - 127;
                    let y = (i % 255) as i32 - 127;
                    run8(&[x as i8, y as i8], &mut rules, &mut a);
                    for z in -127..=127i32 {
                        run8(&[x as i8, y as i8, z as i8], &mut rules, &mut a);
                    }
                    (a, rules)
                },
            )
            .map(|(a, _)| a)
            .reduce(Acc::new, Acc::merge);
        acc = acc.merge(a2);
        // 8-bit: degrees 4..30 by count profile
        let mut profs = i8_profiles(run.thorough());
        profs.extend(i8_big(run.thorough()));
        extra.insert("i8_profiles".into(), json!(profs.len()));
        let chunks: Vec<&[Vec<i8>]> = profs.chunks(512).collect();
        let a3 = chunks
            .par_iter()
            .map(|ch| {
                let mut a = Acc::new();
                let mut rules = rules8();
                for v in ch.iter() {
                    run8(v, &mut rules, &mut a);
                }
                a
            })
            .reduce(Acc::new, Acc::merge);
        acc = acc.merge(a3);
    }
    finish(
        run,
        acc,
        Coverage {
            rule: "8-bit types (16): EVERY vector in [-127,127]^d for d = 2 and d = 3, and for d in {4,5,8,30} (thorough: 4,5,6,8,13,20,30) every multiset over 3-value sub-alphabets of {+-127,+-100,+-99,+-1,0,50,-37} in two orderings. Float types (8): full power of a 13-value alphabet for d <= 4 (thorough 5), and for larger d up to 30 every vector with <= 3 positions deviating from a common background; both families also at d = 17, 33, 34, 65, 129 (float) / 65 (8-bit) (thorough 31..66, 257, 513) with <= 2 deviating positions (including positions d-33 and d-32). Source tags are distinct, non-contiguous and unsorted. Each arithmetic object is reused across many nodes in an order that mixes the degrees (small after large and large after small). Oracles: routing, sign parity, magnitude bound, exact box-plus (phi/tanh/A-Min*), [exact-(d-2)ln2, exact] (min* approximations), 0.5 unit per table lookup from the real-valued rule (8-bit), partial-hard-limit promotion rule, never -128. Float tolerance is per instance from a first-order conditioning analysis; instances whose tolerance exceeds 0.1 are counted as ill-conditioned and judged only on routing/finiteness/magnitude cap. Non-trivial = at least one well-conditioned output (float) / no zero input (8-bit).".into(),
            exhaustive: true,
            extra,
            graph: None,
            assumptions: vec![
                "float domain: exhaustive over the stated alphabets only".into(),
                "phi-rule catastrophic cancellation with an exact-zero input is inherent to the algorithm at the type's precision and is classed ill-conditioned, not a violation".into(),
            ],
        },
    )
}
