//! C05 — variable updates are exact saturating sums; 8-bit arithmetic never
//! overflows; layered single-check update == flooding rule on extrinsics.
//! E-enum (harness built with overflow checks on; every call guarded).

use crate::arith::*;
use crate::common::*;
use crate::with_arith;
use ldpc_toolbox::decoder::arithmetic::DecoderArithmetic;
use serde_json::{json, Value};

fn clip(x: i64) -> i64 {
    x.clamp(-127, 127)
}

fn flags(name: &str) -> (bool, bool) {
    (name.contains("Jones"), name.contains("Deg1Clip"))
}

fn next_up(x: f64) -> f64 {
    if x.is_nan() || x == f64::INFINITY {
        return x;
    }
    if x == 0.0 {
        return f64::from_bits(1);
    }
    let b = x.to_bits();
    f64::from_bits(if x > 0.0 { b + 1 } else { b - 1 })
}

fn next_down(x: f64) -> f64 {
    -next_up(-x)
}

fn quantiser_inputs() -> Vec<f64> {
    let mut v = Vec::new();
    for k in -2200i32..=2200 {
        let x = k as f64 / 16.0;
        v.push(x);
        v.push(next_up(x));
        v.push(next_down(x));
    }
    v.extend([0.0, -0.0, f64::INFINITY, f64::NEG_INFINITY, f64::NAN, 1e300, -1e300, 1e-310, -1e-310, f64::MAX, f64::MIN, 15.875, -15.875, 15.9375, 1e30, -1e30]);
    v
}

fn ref_quantise(x: f64) -> i64 {
    if x.is_nan() {
        return 0;
    }
    let y = 8.0 * x;
    if y >= 127.0 {
        return 127;
    }
    if y <= -127.0 {
        return -127;
    }
    let a = y.abs();
    let t = a.trunc();
    let r = if a - t >= 0.5 { t + 1.0 } else { t };
    (if y < 0.0 { -r } else { r }) as i64
}

fn check_quantiser<A: Arith>(name: &str, acc: &mut Acc) {
    let a = A::default();
    for x in quantiser_inputs() {
        acc.evals += 1;
        let key = format!("quantise:{}:{:?}", name, x);
        let replay = json!({"kind": "quantise", "name": name, "bits": x.to_bits()});
        match guard(|| a.input_llr_quantize(x)) {
            Err(e) => acc.violate(key, format!("input_llr_quantize({:?}) panicked: {}", x, e), replay),
            Ok(q) => {
                if A::V::INT {
                    let want = ref_quantise(x);
                    if q.f() as i64 != want || q.f() == -128.0 {
                        acc.violate(key, format!("input_llr_quantize({:?}) = {:?}, round(8x) saturated to +-127 is {}", x, q, want), replay);
                        continue;
                    }
                    let y = 8.0 * x;
                    if y.is_nan() || !y.is_finite() || (y.abs() - y.abs().trunc() == 0.5) || y.abs() >= 126.5 {
                        acc.nontrivial += 1;
                    }
                } else if x.is_finite() {
                    let want = A::V::of(x);
                    let same = (q.f().is_nan() && want.f().is_nan()) || q.f().to_bits() == want.f().to_bits();
                    if !same {
                        acc.violate(key, format!("input_llr_quantize({:?}) = {:?}, conversion to the working precision is {:?}", x, q, want), replay);
                        continue;
                    }
                    acc.nontrivial += 1;
                }
            }
        }
    }
}

// ------------------------------------------------------- variable rule, 8-bit

fn judge_var8(name: &str, input: i8, msgs: &[i8], llr: i8, outs: &[(usize, i8)], tg: &[usize]) -> Result<(), String> {
    let (jones, deg1) = flags(name);
    let inp = if deg1 && msgs.len() == 1 { (input as i64).clamp(-116, 116) } else { input as i64 };
    let mut total: i64 = inp + msgs.iter().map(|&m| m as i64).sum::<i64>();
    if jones {
        total = clip(total);
    }
    if llr as i64 != clip(total) {
        return Err(format!("new LLR {} but channel + messages = {} (saturated {})", llr, total, clip(total)));
    }
    if outs.len() != msgs.len() {
        return Err(format!("{} messages emitted for {} neighbours", outs.len(), msgs.len()));
    }
    for (i, &t) in tg.iter().enumerate() {
        let hits: Vec<&(usize, i8)> = outs.iter().filter(|(d, _)| *d == t).collect();
        if hits.len() != 1 {
            return Err(format!("{} messages addressed to check {}", hits.len(), t));
        }
        let want = clip(total - msgs[i] as i64);
        if hits[0].1 as i64 != want || hits[0].1 == -128 {
            return Err(format!("message to check {} is {} but total {} minus its own contribution {} saturates to {}", i, hits[0].1, total, msgs[i], want));
        }
    }
    Ok(())
}

fn var8_one<A: Arith<V = i8>>(name: &str, a: &mut A, input: i8, msgs: &[i8], acc: &mut Acc) {
    acc.evals += 1;
    let tg: Vec<usize> = (0..msgs.len()).map(|i| (i * 5 + 2) % 211 + if i % 3 == 0 { 300 } else { 0 }).collect();
    let m: Vec<(usize, i8)> = tg.iter().cloned().zip(msgs.iter().cloned()).collect();
    let describe = || {
        if msgs.len() <= 6 {
            format!("{:?}", msgs)
        } else {
            let mut c = std::collections::BTreeMap::new();
            for &x in msgs {
                *c.entry(x).or_insert(0usize) += 1;
            }
            format!("profile{:?}", c)
        }
    };
    match guard(|| send_var(a, input, &m)) {
        Err(e) => {
            acc.violate(format!("var:{}:{}:{}", name, input, describe()), format!("send_var_messages panicked: {}", e), json!({"kind": "var8", "name": name, "input": input, "msgs": msgs}));
            *a = A::default();
        }
        Ok((llr, outs)) => {
            if let Err(e) = judge_var8(name, input, msgs, llr, &outs, &tg) {
                acc.violate(format!("var:{}:{}:{}", name, input, describe()), e, json!({"kind": "var8", "name": name, "input": input, "msgs": msgs}));
            } else {
                let s: i64 = input as i64 + msgs.iter().map(|&x| x as i64).sum::<i64>();
                if s.abs() > 127 || msgs.len() == 1 {
                    acc.nontrivial += 1;
                }
                if acc.evals % 9_000_011 == 23 {
                    acc.sample(|| json!({"arith": name, "input": input, "messages": describe(), "llr": llr}));
                }
            }
        }
    }
}

fn var8_sweep<A: Arith<V = i8>>(name: &str, thorough: bool) -> Acc {
    use rayon::prelude::*;
    // degree 1 and 2 exhaustively
    let a1: Acc = (0..255u32)
        .into_par_iter()
        .fold(Acc::new, |mut acc, xi| {
            let mut a = A::default();
            let x = (xi as i32 - 127) as i8;
            for m1 in -127..=127i32 {
                var8_one::<A>(name, &mut a, x, &[m1 as i8], &mut acc);
                for m2 in -127..=127i32 {
                    var8_one::<A>(name, &mut a, x, &[m1 as i8, m2 as i8], &mut acc);
                }
            }
            acc
        })
        .reduce(Acc::new, Acc::merge);
    // degrees 3..200 by count profile
    let pool: [i8; 9] = [-127, -116, -100, -1, 0, 1, 100, 116, 127];
    let small_ds: Vec<usize> = if thorough { vec![3, 4, 5, 6, 10] } else { vec![3, 4, 6] };
    let big_ds: Vec<usize> = if thorough { vec![50, 127, 128, 129, 199, 200] } else { vec![128, 129, 200] };
    let mut profs: Vec<Vec<i8>> = Vec::new();
    for a in 0..pool.len() {
        for b in (a + 1)..pool.len() {
            for c in (b + 1)..pool.len() {
                for &d in &small_ds {
                    for i in 0..=d {
                        for j in 0..=(d - i) {
                            profs.push(profile(&[(pool[a], i), (pool[b], j), (pool[c], d - i - j)], (i + j) % 2 == 1));
                        }
                    }
                }
                for &d in &big_ds {
                    let marks = [0usize, 1, 2, d / 3, d / 2, d - 2, d - 1, d];
                    for &i in &marks {
                        for &j in &marks {
                            if i + j <= d {
                                profs.push(profile(&[(pool[a], i), (pool[b], j), (pool[c], d - i - j)], (i + j) % 2 == 1));
                            }
                        }
                    }
                }
            }
        }
    }
    let a2: Acc = profs
        .par_chunks(256)
        .map(|ch| {
            let mut acc = Acc::new();
            let mut a = A::default();
            for p in ch {
                for &x in &pool {
                    var8_one::<A>(name, &mut a, x, p, &mut acc);
                }
            }
            acc
        })
        .reduce(Acc::new, Acc::merge);
    a1.merge(a2)
}

fn profile(parts: &[(i8, usize)], interleave: bool) -> Vec<i8> {
    let mut v = Vec::new();
    for &(x, n) in parts {
        v.extend(std::iter::repeat(x).take(n));
    }
    if interleave {
        let d = v.len();
        let mut w = Vec::with_capacity(d);
        let (mut lo, mut hi) = (0usize, d);
        while lo < hi {
            w.push(v[lo]);
            lo += 1;
            if lo < hi {
                hi -= 1;
                w.push(v[hi]);
            }
        }
        w
    } else {
        v
    }
}

// ------------------------------------------------------- variable rule, float

fn varf_sweep<A: Arith>(name: &str, thorough: bool) -> Acc {
    let grid: Vec<f64> = vec![0.0, 0.3, -1.7, 4.0, -12.5, 1e-3, 250.0];
    let dmax = if thorough { 6 } else { 5 };
    let mut acc = Acc::new();
    let mut a = A::default();
    let k = grid.len() as u64;
    for d in 1..=dmax {
        for mut i in 0..k.pow(d as u32 + 1) {
            let input = A::V::of(grid[(i % k) as usize]);
            i /= k;
            let mut msgs = Vec::new();
            for j in 0..d {
                msgs.push(((j * 3 + 1) % 17 + 20 * (j % 2), A::V::of(grid[(i % k) as usize])));
                i /= k;
            }
            acc.evals += 1;
            let vals: Vec<f64> = msgs.iter().map(|m| m.1.f()).collect();
            let key = format!("var:{}:{:?}:{:?}", name, input, vals);
            let replay = json!({"kind": "varf", "name": name, "input": input.f(), "msgs": vals});
            match guard(|| send_var(&mut a, input, &msgs)) {
                Err(e) => {
                    acc.violate(key, format!("send_var_messages panicked: {}", e), replay);
                    a = A::default();
                }
                Ok((llr, outs)) => {
                    let total: f64 = input.f() + vals.iter().sum::<f64>();
                    let scale: f64 = input.f().abs() + vals.iter().map(|x| x.abs()).sum::<f64>();
                    let tol = 4.0 * (d as f64 + 1.0) * A::V::EPS * scale;
                    if (llr.f() - total).abs() > tol {
                        acc.violate(key, format!("new LLR {:e}, channel + messages = {:e}", llr.f(), total), replay);
                        continue;
                    }
                    if outs.len() != d {
                        acc.violate(key, format!("{} messages for {} neighbours", outs.len(), d), replay);
                        continue;
                    }
                    let mut bad = None;
                    for (t, v) in &msgs {
                        let hits: Vec<&(usize, A::V)> = outs.iter().filter(|(dd, _)| dd == t).collect();
                        if hits.len() != 1 {
                            bad = Some(format!("{} messages addressed to check {}", hits.len(), t));
                            break;
                        }
                        let want = total - v.f();
                        if (hits[0].1.f() - want).abs() > tol {
                            bad = Some(format!("message to check {} is {:e}, total minus own contribution is {:e}", t, hits[0].1.f(), want));
                            break;
                        }
                    }
                    if let Some(b) = bad {
                        acc.violate(key, b, replay);
                    } else if d >= 2 {
                        acc.nontrivial += 1;
                    }
                }
            }
        }
    }
    acc
}

// ------------------------------------------------------- layered primitive

fn layered_case<A: Arith>(name: &str, a: &mut A, dests: &[usize], old: &[A::V], vars0: &[A::W], acc: &mut Acc) {
    acc.evals += 1;
    let d = dests.len();
    let key = format!("layered:{}:m{:?}:v{:?}", name, old.iter().map(|x| x.f()).collect::<Vec<_>>(), dests.iter().map(|&i| vars0[i].f()).collect::<Vec<_>>());
    let replay = json!({"kind": "layered", "name": name, "dests": dests, "old": old.iter().map(|x| x.f()).collect::<Vec<_>>(), "vars": vars0.iter().map(|x| x.f()).collect::<Vec<_>>()});
    // the flooding rule on the extrinsic values
    let ext_w: Vec<f64> = (0..d).map(|i| vars0[dests[i]].f() - old[i].f()).collect();
    let ext_v: Vec<A::V> = ext_w.iter().map(|&x| if A::V::INT { A::V::of(clip(x as i64) as f64) } else { A::V::of(x) }).collect();
    let msgs: Vec<(usize, A::V)> = dests.iter().cloned().zip(ext_v.iter().cloned()).collect();
    let flood = match guard(|| send_check(a, &msgs)) {
        Ok(f) => f,
        Err(_) => {
            // the flooding rule itself fails on this input (judged by C04); nothing to compare
            *a = A::default();
            acc.count("flooding_rule_panicked");
            return;
        }
    };
    let mut check: Vec<(usize, A::V)> = dests.iter().cloned().zip(old.iter().cloned()).collect();
    let mut vars: Vec<A::W> = vars0.to_vec();
    if let Err(e) = guard(|| layered(a, &mut check, &mut vars)) {
        acc.violate(key, format!("update_check_messages_and_vars panicked: {}", e), replay);
        *a = A::default();
        return;
    }
    for i in 0..d {
        let new_f = match flood.iter().find(|(t, _)| *t == dests[i]) {
            Some(x) => x.1.f(),
            None => {
                acc.count("flooding_rule_misrouted");
                return;
            }
        };
        let got = check[i].1.f();
        let want_var = ext_w[i] + new_f;
        let got_var = vars[dests[i]].f();
        let tol = if A::V::INT {
            0.0
        } else {
            64.0 * A::V::EPS * vars0[dests[i]].f().abs().max(old[i].f().abs()).max(new_f.abs()).max(1e-300)
        };
        if check[i].0 != dests[i] {
            acc.violate(key, "destination tags were changed".into(), replay);
            return;
        }
        if (got - new_f).abs() > tol || got.is_nan() != new_f.is_nan() {
            acc.violate(key, format!("new check message to variable {} is {:e}; the flooding rule on the extrinsic values {:?} gives {:e}", dests[i], got, ext_w, new_f), replay);
            return;
        }
        if (got_var - want_var).abs() > tol {
            acc.violate(key, format!("variable {} becomes {:e}; extrinsic {:e} plus new message {:e} is {:e}", dests[i], got_var, ext_w[i], new_f, want_var), replay);
            return;
        }
        // var_llr_to_llr is the saturation to the message range
        if A::V::INT {
            let l = a.var_llr_to_llr(vars[dests[i]]).f();
            if l != clip(got_var as i64) as f64 {
                acc.violate(key, format!("var_llr_to_llr({}) = {}", got_var, l), replay);
                return;
            }
        }
    }
    for (j, (v0, v1)) in vars0.iter().zip(vars.iter()).enumerate() {
        if !dests.contains(&j) && v0.f().to_bits() != v1.f().to_bits() {
            acc.violate(key, format!("variable {} is not on the row but changed from {:?} to {:?}", j, v0, v1), replay);
            return;
        }
    }
    acc.nontrivial += 1;
    if acc.evals % 2_000_003 == 29 {
        acc.sample(|| json!({"arith": name, "old_check_messages": old.iter().map(|x| x.f()).collect::<Vec<_>>(), "vars": dests.iter().map(|&i| vars0[i].f()).collect::<Vec<_>>(), "new_check_messages": check.iter().map(|x| x.1.f()).collect::<Vec<_>>()}));
    }
}

fn layered_sweep<A: Arith>(name: &str, thorough: bool) -> Acc {
    use rayon::prelude::*;
    // vars vector has two extra entries that are not on the row
    let mut cases: Vec<(Vec<usize>, Vec<f64>, Vec<f64>)> = Vec::new(); // dests, old msgs, vars (len = max dest + 2)
    if A::V::INT {
        let m15: Vec<f64> = [-127, -120, -100, -64, -9, -2, -1, 0, 1, 3, 8, 50, 99, 100, 127].iter().map(|&x| x as f64).collect();
        let mut v41: Vec<f64> = Vec::new();
        for k in -20..=20 {
            v41.push((k as f64 * 19.05).round().clamp(-381.0, 381.0));
        }
        v41.extend([127.0, -127.0, 128.0, -128.0, 254.0, -254.0, 255.0, -255.0, 126.0, 101.0, -99.0]);
        v41.sort_by(|a, b| a.partial_cmp(b).unwrap());
        v41.dedup();
        for &m0 in &m15 {
            for &m1 in &m15 {
                for &v0 in &v41 {
                    for &v1 in &v41 {
                        cases.push((vec![3, 1], vec![m0, m1], vec![777.0, v1, -5.0, v0, 9.0]));
                    }
                }
            }
        }
        let m8: Vec<f64> = [-127.0, -100.0, -8.0, 0.0, 1.0, 30.0, 99.0, 127.0].to_vec();
        let v16: Vec<f64> = [-381.0, -255.0, -128.0, -127.0, -101.0, -40.0, -1.0, 0.0, 2.0, 17.0, 100.0, 126.0, 127.0, 200.0, 254.0, 381.0].to_vec();
        let (m3, v3): (Vec<f64>, Vec<f64>) = if thorough { (m8.clone(), v16.clone()) } else { (m8[..6].to_vec(), v16.iter().cloned().step_by(2).collect()) };
        for &a0 in &m3 {
            for &a1 in &m3 {
                for &a2 in &m3 {
                    for &b0 in &v3 {
                        for &b1 in &v3 {
                            for &b2 in &v3 {
                                cases.push((vec![0, 4, 2], vec![a0, a1, a2], vec![b0, 1.0, b2, -3.0, b1, 11.0]));
                            }
                        }
                    }
                }
            }
        }
        // variables of high degree: |variable LLR| up to 127*(D+1) for D = 7, 15, 16, 17, 31, 64, 200
        // (the property's degree range), on checks of degree 2 and 3
        let big: Vec<f64> = [1016.0, 2032.0, 2047.0, 2048.0, 2159.0, 2286.0, 4064.0, 4095.0, 4096.0, 8255.0, 16383.0, 25400.0, 25527.0].iter().flat_map(|&x: &f64| [x, -x]).collect();
        for &m0 in &m8 {
            for &m1 in &m8 {
                for &v0 in &big {
                    for &v1 in &[0.0, 127.0, -381.0, 2159.0, -25527.0] {
                        cases.push((vec![3, 1], vec![m0, m1], vec![777.0, v1, -5.0, v0, 9.0]));
                        cases.push((vec![0, 4, 2], vec![m0, m1, -m0], vec![v0, 1.0, v1, -3.0, -v0, 11.0]));
                    }
                }
            }
        }
        // degrees 4..8 by profile
        for d in 4..=8usize {
            for &bgm in &[0.0, 127.0, -100.0, 5.0] {
                for &bgv in &[0.0, 381.0, -128.0, 60.0, -7.0] {
                    for p in 0..d {
                        for &dm in &[-127.0, 99.0, 1.0] {
                            for &dv in &[-381.0, 127.0, 0.0, -1.0] {
                                let dests: Vec<usize> = (0..d).map(|i| (i * 3 + 1) % (d + 2)).collect();
                                let mut uniq = dests.clone();
                                uniq.sort_unstable();
                                uniq.dedup();
                                if uniq.len() != d {
                                    continue;
                                }
                                let mut old = vec![bgm; d];
                                old[p] = dm;
                                let mut vars = vec![bgv; d + 2];
                                vars[dests[p]] = dv;
                                cases.push((dests, old, vars));
                            }
                        }
                    }
                }
            }
        }
        // check degrees just past 8, 16, 32, 64 (thorough 128, 256): one deviating position in a background
        for d in if thorough { vec![9usize, 16, 17, 31, 32, 33, 34, 63, 64, 65, 129, 257] } else { vec![9usize, 17, 32, 33, 34, 65] } {
            let dests: Vec<usize> = (0..d).map(|i| d + 1 - i).collect();
            for &bgm in &[0.0, 127.0, -100.0, 5.0] {
                for &bgv in &[40.0, 381.0, -128.0, -7.0] {
                    for &p in &[0usize, 1, d / 2, d.saturating_sub(33), d.saturating_sub(32), d - 1] {
                        for &dm in &[-127.0, 99.0, 1.0] {
                            for &dv in &[-381.0, 10.0, 0.0, -40.0] {
                                let mut old = vec![bgm; d];
                                old[p] = dm;
                                let mut vars = vec![bgv; d + 2];
                                vars[dests[p]] = dv;
                                // a second deviating variable at the far end
                                vars[dests[d - 1 - p.min(d - 1)]] = -dv - 3.0;
                                cases.push((dests.clone(), old, vars));
                            }
                        }
                    }
                }
            }
        }
    } else {
        let g: Vec<f64> = vec![0.0, 0.7, -2.3, 5.0, -11.0, 1e-3];
        let k = g.len() as u64;
        let dmax = if thorough { 4 } else { 3 };
        for d in 2..=dmax {
            for mut i in 0..k.pow(2 * d as u32) {
                let mut old = Vec::new();
                let mut vars = vec![3.25; d + 2];
                let dests: Vec<usize> = (0..d).map(|j| d + 1 - j).collect();
                for j in 0..d {
                    old.push(g[(i % k) as usize]);
                    i /= k;
                    vars[dests[j]] = g[(i % k) as usize] * 1.5 + 0.125;
                    i /= k;
                }
                cases.push((dests, old, vars));
            }
        }
    }
    // one arithmetic object per job, cases taken in a stride order that mixes the degrees
    let njobs = cases.len().div_ceil(2048).max(1);
    (0..njobs)
        .into_par_iter()
        .map(|c| {
            let mut acc = Acc::new();
            let mut a = A::default();
            let mut idx: Vec<usize> = Vec::new();
            let mut i = c;
            while i < cases.len() {
                idx.push(i);
                i += njobs;
            }
            // forward (degrees ascending) and then backward (descending) on the same object
            let back: Vec<usize> = idx.iter().rev().step_by(7).cloned().collect();
            for &i in idx.iter().chain(back.iter()) {
                let (dests, old, vars) = &cases[i];
                let old_v: Vec<A::V> = old.iter().map(|&x| A::V::of(x)).collect();
                let vars_w: Vec<A::W> = vars.iter().map(|&x| A::W::of(x)).collect();
                // stay inside the reachable envelope: |var - old| must fit the layered rule's precondition
                layered_case::<A>(name, &mut a, dests, &old_v, &vars_w, &mut acc);
            }
            acc
        })
        .reduce(Acc::new, Acc::merge)
}

fn all_for<A: Arith>(name: &str, thorough: bool) -> Acc {
    let mut acc = Acc::new();
    check_quantiser::<A>(name, &mut acc);
    acc = acc.merge(layered_sweep::<A>(name, thorough));
    if !A::V::INT {
        acc = acc.merge(varf_sweep::<A>(name, thorough));
    }
    acc
}

fn var8_dispatch(name: &str, thorough: bool) -> Acc {
    use ldpc_toolbox::decoder::arithmetic::*;
    match name {
        "Minstarapproxi8" => var8_sweep::<Minstarapproxi8>(name, thorough),
        "Minstarapproxi8Jones" => var8_sweep::<Minstarapproxi8Jones>(name, thorough),
        "Minstarapproxi8PartialHardLimit" => var8_sweep::<Minstarapproxi8PartialHardLimit>(name, thorough),
        "Minstarapproxi8JonesPartialHardLimit" => var8_sweep::<Minstarapproxi8JonesPartialHardLimit>(name, thorough),
        "Minstarapproxi8Deg1Clip" => var8_sweep::<Minstarapproxi8Deg1Clip>(name, thorough),
        "Minstarapproxi8JonesDeg1Clip" => var8_sweep::<Minstarapproxi8JonesDeg1Clip>(name, thorough),
        "Minstarapproxi8PartialHardLimitDeg1Clip" => var8_sweep::<Minstarapproxi8PartialHardLimitDeg1Clip>(name, thorough),
        "Minstarapproxi8JonesPartialHardLimitDeg1Clip" => var8_sweep::<Minstarapproxi8JonesPartialHardLimitDeg1Clip>(name, thorough),
        "Aminstari8" => var8_sweep::<Aminstari8>(name, thorough),
        "Aminstari8Jones" => var8_sweep::<Aminstari8Jones>(name, thorough),
        "Aminstari8PartialHardLimit" => var8_sweep::<Aminstari8PartialHardLimit>(name, thorough),
        "Aminstari8JonesPartialHardLimit" => var8_sweep::<Aminstari8JonesPartialHardLimit>(name, thorough),
        "Aminstari8Deg1Clip" => var8_sweep::<Aminstari8Deg1Clip>(name, thorough),
        "Aminstari8JonesDeg1Clip" => var8_sweep::<Aminstari8JonesDeg1Clip>(name, thorough),
        "Aminstari8PartialHardLimitDeg1Clip" => var8_sweep::<Aminstari8PartialHardLimitDeg1Clip>(name, thorough),
        "Aminstari8JonesPartialHardLimitDeg1Clip" => var8_sweep::<Aminstari8JonesPartialHardLimitDeg1Clip>(name, thorough),
        _ => Acc::new(),
    }
}

fn replay_element(v: &Value, acc: &mut Acc) {
    let name = v["name"].as_str().unwrap().to_string();
    match v["kind"].as_str() {
        Some("quantise") => {
            with_arith!(name.as_str(), A, { check_quantiser::<A>(&name, acc) });
        }
        Some("var8") => {
            // re-run the whole degree-1/2 + profile sweep for that type (cheap)
            let a = var8_dispatch(&name, false);
            let t = std::mem::take(acc);
            *acc = t.merge(a);
        }
        Some("varf") => {
            with_arith!(name.as_str(), A, {
                let a = varf_sweep::<A>(&name, false);
                let t = std::mem::take(acc);
                *acc = t.merge(a);
            });
        }
        Some("layered") => {
            let dests: Vec<usize> = v["dests"].as_array().unwrap().iter().map(|x| x.as_u64().unwrap() as usize).collect();
            let old: Vec<f64> = v["old"].as_array().unwrap().iter().map(|x| x.as_f64().unwrap()).collect();
            let vars: Vec<f64> = v["vars"].as_array().unwrap().iter().map(|x| x.as_f64().unwrap()).collect();
            with_arith!(name.as_str(), A, {
                let mut a = A::default();
                let old_v: Vec<<A as Arith>::V> = old.iter().map(|&x| <A as Arith>::V::of(x)).collect();
                let vars_w: Vec<<A as Arith>::W> = vars.iter().map(|&x| <A as Arith>::W::of(x)).collect();
                layered_case::<A>(&name, &mut a, &dests, &old_v, &vars_w, acc);
            });
        }
        _ => machinery("C05: unknown replay element"),
    }
}

pub fn run(run: &Run) -> i32 {
    let mut acc = Acc::new();
    if let Some(p) = &run.replay {
        let v: Value = serde_json::from_str(&std::fs::read_to_string(p).unwrap_or_else(|_| machinery("cannot read replay"))).unwrap_or_else(|_| machinery("bad replay json"));
        replay_element(&v["element"], &mut acc);
    } else {
        for name in crate::dec::ARITHMETICS.iter() {
            let a = with_arith!(*name, A, { all_for::<A>(name, run.thorough()) });
            acc = acc.merge(a);
            acc = acc.merge(var8_dispatch(name, run.thorough()));
        }
    }
    finish(
        run,
        acc,
        Coverage {
            rule: "quantiser: every k/16 for |k| <= 2200 with both neighbours (all half-integer boundaries of 8x), +-0, +-inf, NaN, huge and subnormal values, x 24 types; 8-bit variable rule: EVERY (input, m1) and (input, m1, m2) in [-127,127], and degrees 3..200 by count profile over 3-value sub-alphabets of {-127,-116,-100,-1,0,1,100,116,127} x 9 inputs, two orderings; float variable rule: full power of a 7-value grid for degrees 1..5(6); layered primitive vs flooding rule on extrinsics: 8-bit degree 2 over 15 message values x 52 variable values inside |v| <= 381 plus 26 large values up to 127*201 = 25527 (variables of degree up to 200), degree 3 over grids, degrees 4..8 by profile and 9, 17, 32, 33, 34, 65 (thorough to 257) with one or two deviating positions, float degrees 2..3(4) over 6-value grids; variables not on the row must be untouched. Built with overflow checks; every call guarded. Non-trivial = saturating or boundary case (quantiser, 8-bit variable rule) / completed comparison (layered).".into(),
            exhaustive: true,
            extra: serde_json::Map::new(),
            graph: None,
            assumptions: vec![
                "float comparisons: variable rule within 4(d+1) ulp of the sum of magnitudes; layered vs flooding within 64 ulp of the largest operand (the two code paths associate the last addition differently)".into(),
                "8-bit layered states: dense inside |variable LLR| <= 127*3, selected values up to 127*201".into(),
            ],
        },
    )
}
