//! C06 — DVB-S2 parity-check matrices conform to ETSI EN 302 307-1.
//! E-enum over the 21 code identifiers (exhaustive), against literal tables
//! from the standard held here, structural laws, and pinned digests.

use crate::codes::*;
use crate::common::*;
use crate::mats::matrix_digest;
use ldpc_toolbox::codes::dvbs2::Code;
use ldpc_toolbox::encoder::Encoder;
use serde_json::{json, Value};
use std::collections::BTreeMap;

struct Spec {
    name: &'static str,
    n: usize,
    k: usize,
    q: usize,
    /// information-part column-degree profile: (degree, count)
    profile: [(usize, usize); 2],
}

/// EN 302 307-1 Tables 5a/5b (k_ldpc), 7a/7b (q) and the degree distribution
/// of the address tables of Annexes B and C.
const SPECS: [Spec; 21] = [
    Spec { name: "R1_4", n: 64800, k: 16200, q: 135, profile: [(12, 5400), (3, 10800)] },
    Spec { name: "R1_3", n: 64800, k: 21600, q: 120, profile: [(12, 7200), (3, 14400)] },
    Spec { name: "R2_5", n: 64800, k: 25920, q: 108, profile: [(12, 8640), (3, 17280)] },
    Spec { name: "R1_2", n: 64800, k: 32400, q: 90, profile: [(8, 12960), (3, 19440)] },
    Spec { name: "R3_5", n: 64800, k: 38880, q: 72, profile: [(12, 12960), (3, 25920)] },
    Spec { name: "R2_3", n: 64800, k: 43200, q: 60, profile: [(13, 4320), (3, 38880)] },
    Spec { name: "R3_4", n: 64800, k: 48600, q: 45, profile: [(12, 5400), (3, 43200)] },
    Spec { name: "R4_5", n: 64800, k: 51840, q: 36, profile: [(11, 6480), (3, 45360)] },
    Spec { name: "R5_6", n: 64800, k: 54000, q: 30, profile: [(13, 5400), (3, 48600)] },
    Spec { name: "R8_9", n: 64800, k: 57600, q: 20, profile: [(4, 7200), (3, 50400)] },
    Spec { name: "R9_10", n: 64800, k: 58320, q: 18, profile: [(4, 6480), (3, 51840)] },
    Spec { name: "R1_4short", n: 16200, k: 3240, q: 36, profile: [(12, 1440), (3, 1800)] },
    Spec { name: "R1_3short", n: 16200, k: 5400, q: 30, profile: [(12, 1800), (3, 3600)] },
    Spec { name: "R2_5short", n: 16200, k: 6480, q: 27, profile: [(12, 2160), (3, 4320)] },
    Spec { name: "R1_2short", n: 16200, k: 7200, q: 25, profile: [(8, 1800), (3, 5400)] },
    Spec { name: "R3_5short", n: 16200, k: 9720, q: 18, profile: [(12, 3240), (3, 6480)] },
    Spec { name: "R2_3short", n: 16200, k: 10800, q: 15, profile: [(13, 1080), (3, 9720)] },
    Spec { name: "R3_4short", n: 16200, k: 11880, q: 12, profile: [(12, 360), (3, 11520)] },
    Spec { name: "R4_5short", n: 16200, k: 12600, q: 10, profile: [(3, 12600), (0, 0)] },
    Spec { name: "R5_6short", n: 16200, k: 13320, q: 8, profile: [(13, 360), (3, 12960)] },
    Spec { name: "R8_9short", n: 16200, k: 14400, q: 5, profile: [(4, 1800), (3, 12600)] },
];

fn load_pins(run: &Run) -> BTreeMap<String, String> {
    let p = run.root.join("reference").join("dvbs2.json");
    match std::fs::read_to_string(&p) {
        Ok(s) => {
            let v: Value = serde_json::from_str(&s).unwrap_or_else(|_| machinery("reference/dvbs2.json is not valid JSON"));
            v.as_object().unwrap().iter().map(|(k, v)| (k.clone(), v.as_str().unwrap_or("").to_string())).collect()
        }
        Err(_) => BTreeMap::new(),
    }
}

fn check_code(code: Code, pins: &BTreeMap<String, String>, deep_girth: bool, acc: &mut Acc) -> Option<(String, String)> {
    let cname = format!("{:?}", code);
    acc.evals += 1;
    acc.nontrivial += 1;
    let key = format!("dvbs2:{}", cname);
    let replay = json!({"kind": "code", "name": cname});
    let Some(spec) = SPECS.iter().find(|s| s.name == cname) else {
        acc.violate(key, format!("code identifier {} is not one of the 21 of the standard", cname), replay);
        return None;
    };
    let h = match guard(|| code.h()) {
        Ok(h) => h,
        Err(e) => {
            acc.violate(key, format!("h() panicked: {}", e), replay);
            return None;
        }
    };
    let (n, k) = (spec.n, spec.k);
    let m = n - k;
    if h.num_cols() != n || h.num_rows() != m {
        acc.violate(key, format!("matrix is {} x {}; the standard has n = {}, k_ldpc = {} i.e. {} x {}", h.num_rows(), h.num_cols(), n, k, m, n), replay);
        return None;
    }
    if m != 360 * spec.q {
        machinery("C06: literal table inconsistent: n-k != 360 q");
    }
    // row and column views agree
    let mut cnt = 0usize;
    for (r, c) in h.iter_all() {
        cnt += 1;
        if !h.contains(r, c) {
            acc.violate(key, "row and column views disagree".into(), replay);
            return None;
        }
    }
    if cnt != (0..n).map(|c| h.col_weight(c)).sum::<usize>() {
        acc.violate(key, "row and column views disagree in size".into(), replay);
        return None;
    }
    // 360-column groups: each column is the previous one shifted down by q modulo n-k
    for j in 0..k {
        if j % 360 == 0 {
            continue;
        }
        let mut prev: Vec<usize> = h.iter_col(j - 1).map(|&r| (r + spec.q) % m).collect();
        let mut cur: Vec<usize> = h.iter_col(j).cloned().collect();
        prev.sort_unstable();
        cur.sort_unstable();
        if prev != cur {
            acc.violate(key, format!("information column {} is not column {} shifted down by q = {} modulo {}", j, j - 1, spec.q, m), replay);
            return None;
        }
    }
    // degree profile of the information part
    let prof = col_degree_profile(&h, 0, k);
    let want: BTreeMap<usize, usize> = spec.profile.iter().filter(|(_, c)| *c > 0).cloned().collect();
    if prof != want {
        acc.violate(key, format!("information-part column-degree profile {:?}, the standard's address table has {:?}", prof, want), replay);
        return None;
    }
    // dual-diagonal parity part
    let mut parity_ones = 0usize;
    for i in 0..m {
        let mut rows: Vec<usize> = h.iter_col(k + i).cloned().collect();
        rows.sort_unstable();
        let want_rows: Vec<usize> = if i + 1 < m { vec![i, i + 1] } else { vec![i] };
        if rows != want_rows {
            acc.violate(key, format!("parity column {} has rows {:?}, dual-diagonal structure requires {:?}", i, rows, want_rows), replay);
            return None;
        }
        parity_ones += rows.len();
    }
    if parity_ones != 2 * m - 1 {
        acc.violate(key, "parity part does not have 2(n-k)-1 ones".into(), replay);
        return None;
    }
    if !four_cycle_free(&h) {
        acc.violate(key, "the Tanner graph has a cycle of length 4".into(), replay);
        return None;
    }
    // accepted by the systematic encoder, in linear time
    let t0 = std::time::Instant::now();
    let h2 = h.clone();
    let enc = match with_timeout(30, move || Encoder::from_h(&h2)) {
        None => {
            acc.violate(key, "Encoder::from_h did not finish within 30 s or panicked (dense elimination on a staircase matrix?)".into(), replay);
            return None;
        }
        Some(Err(e)) => {
            acc.violate(key, format!("Encoder::from_h rejected the matrix: {:?}", e), replay);
            return None;
        }
        Some(Ok(e)) => e,
    };
    let build_s = t0.elapsed().as_secs_f64();
    let dbg = debug_prefix(&enc, 48);
    if !dbg.contains("Staircase") {
        acc.violate(key, format!("encoder does not use the linear-time staircase form (Debug starts with {:?})", dbg), replay);
        return None;
    }
    if build_s > 10.0 {
        acc.violate(key, format!("building the encoder took {:.1} s", build_s), replay);
        return None;
    }
    for msg in three_messages(k) {
        match guard(|| encode_bits(&enc, &msg)) {
            Ok(cw) => {
                if cw.len() != n || cw[..k] != msg[..] || !syndrome_ok(&h, &cw) {
                    acc.violate(key, "encoder output is not a systematic codeword of H".into(), replay);
                    return None;
                }
            }
            Err(e) => {
                acc.violate(key, format!("encode panicked: {}", e), replay);
                return None;
            }
        }
    }
    // girth: documented 6 for normal rate 1/2; reference = no 4-cycle and a 6-cycle exists
    if cname == "R1_2" || deep_girth {
        let six = has_six_cycle(&h);
        let want = if six { Some(6) } else { None };
        let got = guard(|| h.girth_with_max(6));
        if cname == "R1_2" && !six {
            acc.violate(key, "normal rate 1/2: no cycle of length 6 although girth 6 is documented".into(), replay);
            return None;
        }
        if got.as_ref().ok() != Some(&want) {
            acc.violate(key, format!("girth_with_max(6) = {:?}, reference (no 4-cycle, 6-cycle exists: {}) says {:?}", got, six, want), replay);
            return None;
        }
        acc.count("girth_checked");
    }
    let digest = matrix_digest(&h);
    match pins.get(&cname) {
        Some(p) if p == &digest => {}
        Some(p) => {
            acc.violate(key, format!("matrix digest {} differs from the pinned reference {}", digest, p), replay);
            return None;
        }
        None => {
            if std::env::var("VERIF_WRITE_PINS").is_err() {
                machinery(&format!("C06: no pinned digest for {} in reference/dvbs2.json", cname));
            }
        }
    }
    acc.outcome(&digest);
    acc.sample(|| json!({"code": cname, "rows": m, "cols": n, "q": spec.q, "profile": format!("{:?}", prof), "encoder_build_s": build_s, "sha256": digest}));
    Some((cname, digest))
}

pub fn run(run: &Run) -> i32 {
    let pins = load_pins(run);
    let codes: Vec<Code> = enum_iterator::all::<Code>().collect();
    let only: Option<String> = run.replay.as_ref().map(|p| {
        let v: Value = serde_json::from_str(&std::fs::read_to_string(p).unwrap_or_else(|_| machinery("cannot read replay"))).unwrap_or_else(|_| machinery("bad replay json"));
        v["element"]["name"].as_str().unwrap_or("").to_string()
    });
    let codes: Vec<Code> = codes.into_iter().filter(|c| only.as_ref().map_or(true, |o| &format!("{:?}", c) == o)).collect();
    use rayon::prelude::*;
    let deep = run.thorough();
    let results: Vec<(Acc, Option<(String, String)>)> = codes
        .par_iter()
        .map(|&c| {
            let mut a = Acc::new();
            let d = check_code(c, &pins, deep, &mut a);
            (a, d)
        })
        .collect();
    let mut acc = Acc::new();
    let mut digests = BTreeMap::new();
    for (a, d) in results {
        acc = acc.merge(a);
        if let Some((n, d)) = d {
            digests.insert(n, d);
        }
    }
    // the command-line front end (src/cli/dvbs2.rs) maps (rate string, --short) to an identifier:
    // every valid combination must print the pinned matrix of the identifier the standard gives
    // that combination; the one invalid combination (9/10 short) must fail
    if only.is_none() || only.as_deref() == Some("cli") {
        let rates = ["1/4", "1/3", "2/5", "1/2", "3/5", "2/3", "3/4", "4/5", "5/6", "8/9", "9/10"];
        let mut jobs: Vec<(String, bool)> = Vec::new();
        for short in [false, true] {
            for r in rates {
                jobs.push((r.to_string(), short));
            }
        }
        let part = par_items(&jobs, |(rate, short), a| {
            a.evals += 1;
            a.nontrivial += 1;
            let mut args = crate::c20::sargs(&["dvbs2", "--rate", rate]);
            if *short {
                args.push("--short".into());
            }
            let ident = format!("R{}{}", rate.replace('/', "_"), if *short { "short" } else { "" });
            let key = format!("dvbs2:cli:{}", ident);
            let replay = json!({"kind": "cli", "name": "cli", "args": args});
            let o = crate::c20::run_cli(&args, 120);
            if rate == "9/10" && *short {
                if o.timed_out || o.status == Some(0) || o.status.is_none() || o.stderr.contains("panicked at") {
                    a.violate(key, format!("rate 9/10 does not exist for short frames, but the tool exits with {:?}", o.status), replay);
                }
                return;
            }
            if o.timed_out || o.status != Some(0) {
                a.violate(key, format!("exit status {:?} (timed out: {}), stderr {:?}", o.status, o.timed_out, o.stderr.lines().next()), replay);
                return;
            }
            match guard(|| ldpc_toolbox::sparse::SparseMatrix::from_alist(&o.stdout)) {
                Ok(Ok(h)) => {
                    let d = matrix_digest(&h);
                    match pins.get(&ident) {
                        Some(p) if *p == d => a.outcome(&d),
                        Some(p) => a.violate(key, format!("the tool prints a {}x{} matrix with digest {}, the pinned reference for {} is {}", h.num_rows(), h.num_cols(), d, ident, p), replay),
                        None => {
                            if std::env::var("VERIF_WRITE_PINS").is_err() {
                                machinery(&format!("C06: no pinned digest for {}", ident));
                            }
                        }
                    }
                }
                other => a.violate(key, format!("stdout is not an alist: {:?}", other.map(|r| r.map(|_| ()))), replay),
            }
        });
        acc = acc.merge(part);
    }
    if only.is_none() && codes.len() != 21 {
        acc.violate("dvbs2:count".into(), format!("{} code identifiers, the standard has 21", codes.len()), json!({"kind": "count"}));
    }
    if std::env::var("VERIF_WRITE_PINS").is_ok() && digests.len() == 21 && acc.viols.is_empty() {
        let p = run.root.join("reference").join("dvbs2.json");
        std::fs::create_dir_all(p.parent().unwrap()).unwrap();
        std::fs::write(&p, serde_json::to_string_pretty(&json!(digests)).unwrap()).unwrap();
        println!("pins written to {}", p.display());
    }
    let mut extra = serde_json::Map::new();
    extra.insert("codes".into(), json!(codes.len()));
    finish(
        run,
        acc,
        Coverage {
            rule: "all 21 Code variants (enum_iterator::all). Per code: dimensions and q against literal Tables 5a/5b/7a/7b; the 360-column shift law for every information column; information-part column-degree profile against the standard's; exact dual-diagonal parity part; no 4-cycle (independent row-pair test); Encoder::from_h succeeds, uses the staircase form (Debug prefix) within the time budget, three encodings satisfy H; girth 6 for normal 1/2 (thorough: girth_with_max(6) against the reference for every code); SHA-256 of the sorted entry list equals reference/dvbs2.json. Command-line front end: all 22 (rate, --short) combinations of the real binary; each valid one must print the pinned matrix of the identifier the standard assigns to it, 9/10 short must fail. Every identifier is a distinct non-trivial case.".into(),
            exhaustive: true,
            extra,
            graph: None,
            assumptions: vec![
                "address tables are pinned, not re-derived from the paper standard: a table that was already wrong at pin time in a way that preserves the degree profile, the shift law and 4-cycle freedom would not be detected".into(),
            ],
        },
    )
}
