//! C07 — CCSDS AR4JA and C2 parity-check matrices conform to CCSDS 131.0-B.
//! E-enum over the 9 AR4JA (rate, k) pairs and the C2 code.

use crate::codes::*;
use crate::common::*;
use crate::mats::{matrix_digest, Big};
use ldpc_toolbox::codes::ccsds::{AR4JACode, AR4JAInfoSize, AR4JARate, C2Code};
use ldpc_toolbox::encoder::Encoder;
use ldpc_toolbox::sparse::SparseMatrix;
use serde_json::{json, Value};
use std::collections::BTreeMap;

/// Blue Book Table 7-2: sub-matrix size M for (k, rate).
fn table_m(rate: &str, k: usize) -> usize {
    match (k, rate) {
        (1024, "R1_2") => 512,
        (1024, "R2_3") => 256,
        (1024, "R4_5") => 128,
        (4096, "R1_2") => 2048,
        (4096, "R2_3") => 1024,
        (4096, "R4_5") => 512,
        (16384, "R1_2") => 8192,
        (16384, "R2_3") => 4096,
        (16384, "R4_5") => 2048,
        _ => machinery("C07: unknown (k, rate)"),
    }
}

fn load_pins(run: &Run) -> BTreeMap<String, String> {
    let p = run.root.join("reference").join("ccsds.json");
    match std::fs::read_to_string(&p) {
        Ok(s) => {
            let v: Value = serde_json::from_str(&s).unwrap_or_else(|_| machinery("reference/ccsds.json is not valid JSON"));
            v.as_object().unwrap().iter().map(|(k, v)| (k.clone(), v.as_str().unwrap_or("").to_string())).collect()
        }
        Err(_) => BTreeMap::new(),
    }
}

fn block_circulant(h: &SparseMatrix, s: usize) -> Result<(), String> {
    for (r, c) in h.iter_all() {
        let (br, i) = (r / s, r % s);
        let (bc, j) = (c / s, c % s);
        if !h.contains(br * s + (i + 1) % s, bc * s + (j + 1) % s) {
            return Err(format!("entry ({},{}) has no cyclic successor inside its {}x{} sub-block", r, c, s, s));
        }
    }
    Ok(())
}

fn pin_check(name: &str, h: &SparseMatrix, pins: &BTreeMap<String, String>, what: &str) -> Result<String, String> {
    let digest = matrix_digest(h);
    match pins.get(name) {
        Some(p) if p == &digest => Ok(digest),
        Some(p) => Err(format!("matrix digest {} differs from the pinned reference {}", digest, p)),
        None => {
            if std::env::var("VERIF_WRITE_PINS").is_err() {
                machinery(&format!("C07: no pinned digest for {} in reference/{}", name, what));
            }
            Ok(digest)
        }
    }
}

fn check_ar4ja(rate: AR4JARate, ks: AR4JAInfoSize, pins: &BTreeMap<String, String>, run: &Run, acc: &mut Acc) -> Option<(String, String)> {
    let rname = format!("{:?}", rate);
    let k = match format!("{:?}", ks).as_str() {
        "K1024" => 1024,
        "K4096" => 4096,
        "K16384" => 16384,
        _ => machinery("C07: unknown info size"),
    };
    let name = format!("AR4JA_{}_{}", rname, k);
    acc.evals += 1;
    acc.nontrivial += 1;
    let key = format!("ccsds:{}", name);
    let replay = json!({"kind": "ar4ja", "name": name});
    let m = table_m(&rname, k);
    let h = match guard(|| AR4JACode::new(rate, ks).h()) {
        Ok(h) => h,
        Err(e) => {
            acc.violate(key, format!("h() panicked: {}", e), replay);
            return None;
        }
    };
    if h.num_rows() != 3 * m || h.num_cols() != k + 3 * m {
        acc.violate(key, format!("matrix is {} x {}; 3M x (k+3M) with M = {} is {} x {}", h.num_rows(), h.num_cols(), m, 3 * m, k + 3 * m), replay);
        return None;
    }
    if let Err(e) = block_circulant(&h, m / 4) {
        acc.violate(key, format!("not built from M/4-circulants: {}", e), replay);
        return None;
    }
    // protograph degrees
    let base_cols = [2usize, 3, 1, 3, 6];
    let ext = (h.num_cols() / m) - 5;
    let mut want_cols: Vec<usize> = vec![4; ext];
    want_cols.extend(base_cols);
    for (b, &w) in want_cols.iter().enumerate() {
        for c in b * m..(b + 1) * m {
            if h.col_weight(c) != w {
                acc.violate(key, format!("column {} (block column {}) has weight {}, protograph degree is {}", c, b, h.col_weight(c), w), replay);
                return None;
            }
        }
    }
    if *want_cols.last().unwrap() != 6 {
        machinery("C07: punctured block degree literal");
    }
    let rr = 6 + 2 * ext;
    for (b, &w) in [3usize, rr, rr].iter().enumerate() {
        for r in b * m..(b + 1) * m {
            if h.row_weight(r) != w {
                acc.violate(key, format!("row {} (block row {}) has weight {}, protograph degree is {}", r, b, h.row_weight(r), w), replay);
                return None;
            }
        }
    }
    // rank / invertible tail by independent bit-set elimination (k = 16384: thorough only)
    let do_rank = true;
    if do_rank {
        let tail_rank = Big::from_sparse_cols(&h, k).rank();
        if tail_rank != 3 * m {
            acc.violate(key, format!("last 3M columns have rank {} < {}", tail_rank, 3 * m), replay);
            return None;
        }
        acc.count("tail_invertibility_checked");
        if k <= 1024 {
            let full = Big::from_sparse(&h).rank();
            if full != 3 * m {
                acc.violate(key, format!("rank {} < 3M = {}", full, 3 * m), replay);
                return None;
            }
        }
    }
    // the library's own encoder (dense elimination: cubic, so only the smaller codes)
    let do_encoder = k == 1024 || (k == 4096 && run.thorough());
    if do_encoder {
        let h2 = h.clone();
        match with_timeout(900, move || Encoder::from_h(&h2)) {
            None => {
                acc.violate(key, "Encoder::from_h did not finish or panicked".into(), replay);
                return None;
            }
            Some(Err(e)) => {
                acc.violate(key, format!("Encoder::from_h rejected the matrix: {:?}", e), replay);
                return None;
            }
            Some(Ok(enc)) => {
                for msg in three_messages(k) {
                    match guard(|| encode_bits(&enc, &msg)) {
                        Ok(cw) => {
                            if cw.len() != k + 3 * m || cw[..k] != msg[..] || !syndrome_ok(&h, &cw) {
                                acc.violate(key, "encoder output is not a systematic codeword of H".into(), replay);
                                return None;
                            }
                        }
                        Err(e) => {
                            acc.violate(key, format!("encode panicked: {}", e), replay);
                            return None;
                        }
                    }
                }
                acc.count("library_encoder_checked");
            }
        }
    }
    if name == "AR4JA_R1_2_1024" || run.thorough() {
        let no4 = four_cycle_free(&h);
        let six = has_six_cycle(&h);
        if name == "AR4JA_R1_2_1024" && !(no4 && six) {
            acc.violate(key, format!("documented girth 6 does not hold (4-cycle free: {}, 6-cycle exists: {})", no4, six), replay);
            return None;
        }
        let want = if !no4 { Some(4) } else if six { Some(6) } else { None };
        let got = guard(|| h.girth_with_max(6));
        if got.as_ref().ok() != Some(&want) {
            acc.violate(key, format!("girth_with_max(6) = {:?}, reference says {:?}", got, want), replay);
            return None;
        }
        acc.count("girth_checked");
    }
    match pin_check(&name, &h, pins, "ccsds.json") {
        Ok(d) => {
            acc.outcome(&d);
            acc.sample(|| json!({"code": name, "M": m, "rows": 3 * m, "cols": k + 3 * m, "sha256": d}));
            Some((name, d))
        }
        Err(e) => {
            acc.violate(key, e, replay);
            None
        }
    }
}

fn check_c2(pins: &BTreeMap<String, String>, acc: &mut Acc) -> Option<(String, String)> {
    acc.evals += 1;
    acc.nontrivial += 1;
    let key = "ccsds:C2".to_string();
    let replay = json!({"kind": "c2"});
    let h = match guard(|| C2Code::new().h()) {
        Ok(h) => h,
        Err(e) => {
            acc.violate(key, format!("h() panicked: {}", e), replay);
            return None;
        }
    };
    if h.num_rows() != 1022 || h.num_cols() != 8176 {
        acc.violate(key, format!("matrix is {} x {}, expected 1022 x 8176", h.num_rows(), h.num_cols()), replay);
        return None;
    }
    if let Err(e) = block_circulant(&h, 511) {
        acc.violate(key, format!("not an array of 511x511 circulants: {}", e), replay);
        return None;
    }
    // every 511x511 block is a weight-2 circulant
    for br in 0..2 {
        for bc in 0..16 {
            for i in 0..511 {
                let w = h.iter_row(br * 511 + i).filter(|&&c| c / 511 == bc).count();
                if w != 2 {
                    acc.violate(key, format!("block ({},{}) row {} has weight {}", br, bc, i, w), replay);
                    return None;
                }
            }
        }
    }
    if (0..1022).any(|r| h.row_weight(r) != 32) || (0..8176).any(|c| h.col_weight(c) != 4) {
        acc.violate(key, "row weight 32 / column weight 4 violated".into(), replay);
        return None;
    }
    let rank = Big::from_sparse(&h).rank();
    if rank != 1020 {
        acc.violate(key, format!("rank {} (expected exactly 1020, giving the (8176,7156) code)", rank), replay);
        return None;
    }
    let no4 = four_cycle_free(&h);
    let six = has_six_cycle(&h);
    if !(no4 && six) {
        acc.violate(key, format!("girth is not 6 (4-cycle free: {}, 6-cycle exists: {})", no4, six), replay);
        return None;
    }
    match guard(|| h.girth()) {
        Ok(Some(6)) => {}
        other => {
            acc.violate(key, format!("girth() = {:?}, reference 6", other), replay);
            return None;
        }
    }
    match pin_check("C2", &h, pins, "ccsds.json") {
        Ok(d) => {
            acc.sample(|| json!({"code": "C2", "rank": rank, "sha256": d}));
            Some(("C2".into(), d))
        }
        Err(e) => {
            acc.violate(key, e, replay);
            None
        }
    }
}

pub fn run(run: &Run) -> i32 {
    let pins = load_pins(run);
    let mut items: Vec<Option<(AR4JARate, AR4JAInfoSize)>> = vec![None];
    for r in enum_iterator::all::<AR4JARate>() {
        for k in enum_iterator::all::<AR4JAInfoSize>() {
            items.push(Some((r, k)));
        }
    }
    use rayon::prelude::*;
    let results: Vec<(Acc, Option<(String, String)>)> = items
        .par_iter()
        .map(|it| {
            let mut a = Acc::new();
            let d = match it {
                None => check_c2(&pins, &mut a),
                Some((r, k)) => check_ar4ja(*r, *k, &pins, run, &mut a),
            };
            (a, d)
        })
        .collect();
    let mut acc = Acc::new();
    let mut digests = BTreeMap::new();
    for (a, d) in results {
        acc = acc.merge(a);
        if let Some((n, d)) = d {
            digests.insert(n, d);
        }
    }
    // the command-line front ends (src/cli/ccsds.rs, src/cli/ccsds_c2.rs): every (rate, block size)
    // combination must print the pinned matrix of the code the Blue Book gives that combination
    if run.replay.is_none() {
        let mut jobs: Vec<(Vec<String>, String)> = vec![(crate::c20::sargs(&["ccsds-c2"]), "C2".to_string())];
        for r in ["1/2", "2/3", "4/5"] {
            for k in ["1024", "4096", "16384"] {
                jobs.push((crate::c20::sargs(&["ccsds", "--rate", r, "--block-size", k]), format!("AR4JA_R{}_{}", r.replace('/', "_"), k)));
            }
        }
        let part = par_items(&jobs, |(args, ident), a| {
            a.evals += 1;
            a.nontrivial += 1;
            let key = format!("ccsds:cli:{}", ident);
            let replay = json!({"kind": "cli", "args": args});
            let o = crate::c20::run_cli(args, 300);
            if o.timed_out || o.status != Some(0) {
                a.violate(key, format!("exit status {:?} (timed out: {}), stderr {:?}", o.status, o.timed_out, o.stderr.lines().next()), replay);
                return;
            }
            match guard(|| ldpc_toolbox::sparse::SparseMatrix::from_alist(&o.stdout)) {
                Ok(Ok(h)) => {
                    let d = crate::mats::matrix_digest(&h);
                    match pins.get(ident) {
                        Some(p) if *p == d => a.outcome(&d),
                        Some(p) => a.violate(key, format!("the tool prints a {}x{} matrix with digest {}, the pinned reference for {} is {}", h.num_rows(), h.num_cols(), d, ident, p), replay),
                        None => {
                            if std::env::var("VERIF_WRITE_PINS").is_err() {
                                machinery(&format!("C07: no pinned digest for {}", ident));
                            }
                        }
                    }
                }
                other => a.violate(key, format!("stdout is not an alist: {:?}", other.map(|r| r.map(|_| ()))), replay),
            }
        });
        acc = acc.merge(part);
        for bad in [crate::c20::sargs(&["ccsds", "--rate", "3/4", "--block-size", "1024"]), crate::c20::sargs(&["ccsds", "--rate", "1/2", "--block-size", "2048"])] {
            acc.evals += 1;
            let o = crate::c20::run_cli(&bad, 60);
            if o.timed_out || o.status == Some(0) || o.status.is_none() || o.stderr.contains("panicked at") {
                acc.violate(format!("ccsds:cli:{:?}", bad), format!("a rate / block size the Blue Book does not define is accepted (status {:?})", o.status), json!({"kind": "cli", "args": bad}));
            }
        }
    }
    if items.len() != 10 {
        acc.violate("ccsds:count".into(), format!("{} codes enumerated, expected 9 AR4JA + C2", items.len()), json!({"kind": "count"}));
    }
    if std::env::var("VERIF_WRITE_PINS").is_ok() && digests.len() == 10 && acc.viols.is_empty() {
        let p = run.root.join("reference").join("ccsds.json");
        std::fs::create_dir_all(p.parent().unwrap()).unwrap();
        std::fs::write(&p, serde_json::to_string_pretty(&json!(digests)).unwrap()).unwrap();
        println!("pins written to {}", p.display());
    }
    finish(
        run,
        acc,
        Coverage {
            rule: "all 9 AR4JA (rate, k) pairs and the C2 code, each also through the real command-line binary (ccsds --rate --block-size, ccsds-c2: the printed matrix must be the pinned one of the code the Blue Book assigns to that combination; two undefined combinations must fail). AR4JA: shape 3M x (k+3M) with M from a literal Table 7-2; invariance of every M/4 x M/4 sub-block under the simultaneous cyclic shift; every column/row weight equals the protograph's block degree ((4,4) per extension pair, (2,3,1,3,6), punctured block 6; rows 3, 6|10|18); last 3M columns invertible and full rank by independent bit-set elimination (all nine codes); the library encoder accepts and encodes (k = 1024; k = 4096 in thorough); girth 6 for (1/2, 1024); pinned digests. C2: 1022 x 8176, every 511x511 block a weight-2 circulant, weights 32/4, rank exactly 1020, girth 6, pin.".into(),
            exhaustive: true,
            extra: serde_json::Map::new(),
            graph: None,
            assumptions: vec![
                "theta/phi tables and C2 circulant positions are pinned, not re-derived from the Blue Book".into(),
                "the library's dense encoder construction is cubic; it is exercised for k = 1024 (and k = 4096 in the thorough tier); for the k = 16384 codes invertibility of the last 3M columns is decided by the harness's elimination".into(),
            ],
        },
    )
}
