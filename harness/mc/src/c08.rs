//! C08 — alist text and matrices round-trip losslessly and the parser is
//! total. E-enum: all small matrices x two insertion orders x padded/unpadded
//! (grammar recogniser + round trip); a product menu of malformed texts and
//! every single-token mutation of the valid alists of M(2,3).

use crate::common::*;
use crate::mats::Small;
use ldpc_toolbox::sparse::SparseMatrix;
use serde_json::{json, Value};
use std::collections::BTreeSet;

type Ones = BTreeSet<(usize, usize)>;

fn ones_of(h: &SparseMatrix) -> Ones {
    h.iter_all().collect()
}

/// Independent recogniser of the alist grammar for matrix `m`.
fn recognise(text: &str, m: &Small, padded: bool) -> Result<(), String> {
    recognise_ones(text, m.r, m.n, &m.entries().into_iter().collect(), padded)
}

/// The same for a matrix given as dimensions and a set of positions.
fn recognise_ones(text: &str, r: usize, n: usize, ones: &Ones, padded: bool) -> Result<(), String> {
    struct M {
        r: usize,
        n: usize,
    }
    let m = M { r, n };
    let mut by_col: Vec<Vec<usize>> = vec![Vec::new(); n];
    let mut by_row: Vec<Vec<usize>> = vec![Vec::new(); r];
    for &(i, j) in ones.iter() {
        by_col[j].push(i + 1);
        by_row[i].push(j + 1);
    }
    for l in by_col.iter_mut().chain(by_row.iter_mut()) {
        l.sort_unstable();
    }
    let mut lines: Vec<&str> = text.split('\n').collect();
    if lines.last() != Some(&"") {
        return Err("text does not end with a newline".into());
    }
    lines.pop();
    if lines.len() != 4 + m.n + m.r {
        return Err(format!("{} lines, expected {}", lines.len(), 4 + m.n + m.r));
    }
    let toks = |l: &str| -> Result<Vec<usize>, String> {
        l.split_whitespace()
            .map(|t| t.parse::<usize>().map_err(|_| format!("token {:?} is not a number", t)))
            .collect()
    };
    let colw: Vec<usize> = by_col.iter().map(|l| l.len()).collect();
    let roww: Vec<usize> = by_row.iter().map(|l| l.len()).collect();
    let maxc = colw.iter().cloned().max().unwrap_or(0);
    let maxr = roww.iter().cloned().max().unwrap_or(0);
    if toks(lines[0])? != vec![m.n, m.r] {
        return Err(format!("header {:?}, expected '{} {}'", lines[0], m.n, m.r));
    }
    if toks(lines[1])? != vec![maxc, maxr] {
        return Err(format!("maximum-weight line {:?}, expected '{} {}'", lines[1], maxc, maxr));
    }
    if toks(lines[2])? != colw {
        return Err(format!("column-weight line {:?}, expected {:?}", lines[2], colw));
    }
    if toks(lines[3])? != roww {
        return Err(format!("row-weight line {:?}, expected {:?}", lines[3], roww));
    }
    let check_list = |line: &str, want: Vec<usize>, maxw: usize, what: String| -> Result<(), String> {
        let t = toks(line)?;
        let nz: Vec<usize> = t.iter().cloned().filter(|&x| x != 0).collect();
        if nz != want {
            return Err(format!("{}: indices {:?}, expected sorted 1-based {:?}", what, nz, want));
        }
        // zeros only after the indices
        if t.iter().skip_while(|&&x| x != 0).any(|&x| x != 0) {
            return Err(format!("{}: padding zero before an index", what));
        }
        let zeros = t.len() - nz.len();
        if padded {
            let want_len = if want.is_empty() { maxw.max(1) } else { maxw };
            if t.len() != want_len {
                return Err(format!("{}: {} tokens, padded form prescribes {}", what, t.len(), want_len));
            }
        } else if zeros != 0 {
            return Err(format!("{}: unpadded form contains zeros", what));
        }
        Ok(())
    };
    for j in 0..m.n {
        let want: Vec<usize> = by_col[j].clone();
        check_list(lines[4 + j], want, maxc, format!("column line {}", j))?;
    }
    for i in 0..m.r {
        let want: Vec<usize> = by_row[i].clone();
        check_list(lines[4 + m.n + i], want, maxr, format!("row line {}", i))?;
    }
    Ok(())
}

fn check_roundtrip(r: usize, n: usize, mask: u64, acc: &mut Acc) {
    let m = Small::from_mask(r, n, mask);
    let replay = json!({"kind": "roundtrip", "r": r, "n": n, "mask": mask});
    let want: Ones = m.entries().into_iter().collect();
    for order in [0usize, 1] {
        let h = m.sparse_order(order);
        for padded in [true, false] {
            acc.evals += 1;
            let colw_irregular = (0..n).map(|j| m.column(j).count_ones()).collect::<BTreeSet<_>>().len() > 1;
            if colw_irregular || mask == 0 {
                acc.nontrivial += 1;
            }
            let key = format!(
                "alist:{}:{}x{}:{}{}",
                if padded { "padded" } else { "unpadded" },
                r,
                n,
                if mask == 0 { "zero-matrix".to_string() } else { format!("mask{:x}", mask) },
                if order == 0 { "" } else { ":rev" }
            );
            let text = match guard(|| {
                let a = if padded { h.alist() } else { h.alist_no_padding() };
                let mut w = String::new();
                if padded {
                    h.write_alist(&mut w).unwrap();
                } else {
                    h.write_alist_no_padding(&mut w).unwrap();
                }
                (a, w)
            }) {
                Ok((a, w)) => {
                    if a != w {
                        acc.violate(key, "alist() and write_alist() disagree".into(), replay.clone());
                        return;
                    }
                    a
                }
                Err(e) => {
                    acc.violate(key, format!("writer panicked: {}", e), replay.clone());
                    return;
                }
            };
            if let Err(e) = recognise(&text, &m, padded) {
                acc.violate(key, format!("text {:?} violates the format: {}", text, e), replay.clone());
                return;
            }
            match guard(|| SparseMatrix::from_alist(&text)) {
                Ok(Ok(h2)) => {
                    if h2.num_rows() != r || h2.num_cols() != n || ones_of(&h2) != want {
                        acc.violate(key, format!("parse(write(H)) != H for text {:?}", text), replay.clone());
                        return;
                    }
                    // re-serialising the parsed matrix gives the same text (insertion order is not observable)
                    let again = if padded { h2.alist() } else { h2.alist_no_padding() };
                    if again != text {
                        acc.violate(key, "write(parse(write(H))) != write(H)".into(), replay.clone());
                        return;
                    }
                }
                Ok(Err(e)) => {
                    acc.violate(key, format!("parser rejected the writer's text {:?}: {}", text, e), replay.clone());
                    return;
                }
                Err(e) => {
                    acc.violate(key, format!("parser panicked on the writer's text: {}", e), replay.clone());
                    return;
                }
            }
            acc.outcome(&text);
            if mask % 97 == 5 {
                acc.sample(|| json!({"matrix": m.alist_like(), "padded": padded, "text": text}));
            }
        }
    }
}

/// Larger matrices (weights and indices of two to four digits, thousands of lines), built in a
/// scrambled insertion order; same oracle as check_roundtrip.
fn big_matrices(thorough: bool) -> Vec<(String, usize, usize, Vec<(usize, usize)>)> {
    let mut out: Vec<(String, usize, usize, Vec<(usize, usize)>)> = Vec::new();
    out.push(("row-weight-12:2x30".into(), 2, 30, (0..12).map(|j| (0, 2 * j + 1)).chain([(1, 0), (1, 29)]).collect()));
    out.push(("col-weight-11:12x3".into(), 12, 3, (0..11).map(|i| (i, 1)).chain([(11, 0), (0, 2)]).collect()));
    out.push(("all-ones:1x5000".into(), 1, 5000, (0..5000).map(|j| (0, j)).collect()));
    out.push(("all-ones:5000x1".into(), 5000, 1, (0..5000).map(|i| (i, 0)).collect()));
    out.push(("zero:100x200".into(), 100, 200, vec![]));
    out.push(("identity-plus:300x300".into(), 300, 300, (0..300).flat_map(|i| [(i, i), (i, (i * 7 + 3) % 300)]).collect()));
    for (r, n) in if thorough { vec![(20usize, 70usize), (70, 20), (9, 1100), (128, 129)] } else { vec![(20usize, 70usize), (9, 1100)] } {
        let mut x = 0x1234_5678_9ABC_DEF1u64 ^ ((r * 1000 + n) as u64);
        let mut e = Vec::new();
        for i in 0..r {
            for j in 0..n {
                x ^= x << 13;
                x ^= x >> 7;
                x ^= x << 17;
                if x % 3 == 0 {
                    e.push((i, j));
                }
            }
        }
        out.push((format!("dense:{}x{}", r, n), r, n, e));
    }
    for (_, _, _, e) in out.iter_mut() {
        e.sort_unstable();
        e.dedup();
    }
    out
}

fn check_roundtrip_big(name: &str, r: usize, n: usize, entries: &[(usize, usize)], acc: &mut Acc) {
    let want: Ones = entries.iter().cloned().collect();
    let replay = json!({"kind": "big", "name": name});
    for order in 0..3usize {
        let mut e = entries.to_vec();
        match order {
            0 => {}
            1 => e.reverse(),
            _ => e.sort_by_key(|&(i, j)| (std::cmp::Reverse(j % 7), i % 5, j, i)),
        }
        let mut h = SparseMatrix::new(r, n);
        for &(i, j) in &e {
            h.insert(i, j);
        }
        for padded in [true, false] {
            acc.evals += 1;
            acc.nontrivial += 1;
            let key = format!("alist:{}:big:{}:order{}", if padded { "padded" } else { "unpadded" }, name, order);
            let text = match guard(|| if padded { h.alist() } else { h.alist_no_padding() }) {
                Ok(t) => t,
                Err(e) => {
                    acc.violate(key, format!("writer panicked: {}", e), replay.clone());
                    return;
                }
            };
            if let Err(e) = recognise_ones(&text, r, n, &want, padded) {
                acc.violate(key, format!("text violates the format: {}", e), replay.clone());
                return;
            }
            match guard(|| SparseMatrix::from_alist(&text)) {
                Ok(Ok(h2)) => {
                    if h2.num_rows() != r || h2.num_cols() != n || ones_of(&h2) != want {
                        acc.violate(key, "parse(write(H)) != H".into(), replay.clone());
                        return;
                    }
                    let again = if padded { h2.alist() } else { h2.alist_no_padding() };
                    if again != text {
                        acc.violate(key, "write(parse(write(H))) != write(H)".into(), replay.clone());
                        return;
                    }
                }
                Ok(Err(e)) => {
                    acc.violate(key, format!("parser rejected the writer's text: {}", e), replay.clone());
                    return;
                }
                Err(e) => {
                    acc.violate(key, format!("parser panicked on the writer's text: {}", e), replay.clone());
                    return;
                }
            }
            acc.outcome(&text);
        }
    }
}

/// Reference parse: Err(()) when the text cannot denote a matrix.
pub fn ref_parse(text: &str) -> Result<(usize, usize, Ones), ()> {
    let mut lines = text.split('\n');
    let header = lines.next().ok_or(())?;
    let mut t = header.split_whitespace();
    let ncols: usize = t.next().ok_or(())?.parse().map_err(|_| ())?;
    let nrows: usize = t.next().ok_or(())?.parse().map_err(|_| ())?;
    lines.next();
    lines.next();
    lines.next();
    let mut ones = Ones::new();
    for c in 0..ncols {
        let l = lines.next().ok_or(())?;
        for tok in l.split_whitespace() {
            let v: usize = tok.parse().map_err(|_| ())?;
            if v == 0 {
                continue;
            }
            if v > nrows {
                return Err(());
            }
            ones.insert((v - 1, c));
        }
    }
    Ok((nrows, ncols, ones))
}

/// Entries the text could possibly declare (for the "impl more lenient than
/// the reference" case): dims from the header and (token-1, line) pairs.
fn declared(text: &str) -> Option<(usize, usize, Ones)> {
    let mut lines = text.split('\n');
    let header = lines.next()?;
    let mut t = header.split_whitespace();
    let ncols: usize = t.next()?.parse().ok()?;
    let nrows: usize = t.next()?.parse().ok()?;
    let mut ones = Ones::new();
    for (c, l) in lines.skip(3).enumerate() {
        for tok in l.split_whitespace() {
            if let Ok(v) = tok.parse::<usize>() {
                if v >= 1 {
                    ones.insert((v - 1, c));
                }
            }
        }
    }
    Some((nrows, ncols, ones))
}

fn check_text(text: &str, origin: &str, acc: &mut Acc) {
    acc.evals += 1;
    let key = format!("parse:{:?}", text);
    let replay = json!({"kind": "text", "text": text, "origin": origin});
    let reference = ref_parse(text);
    if reference.is_err() {
        acc.nontrivial += 1;
        acc.count("reference_rejects");
    } else {
        acc.count("reference_accepts");
    }
    match guard(|| SparseMatrix::from_alist(text)) {
        Err(e) => acc.violate(key, format!("parser panicked: {}", e), replay),
        Ok(Ok(h)) => {
            acc.outcome(&(h.num_rows(), h.num_cols(), ones_of(&h).into_iter().collect::<Vec<_>>()));
            match reference {
                Ok((r, n, ones)) => {
                    if h.num_rows() != r || h.num_cols() != n || ones_of(&h) != ones {
                        acc.violate(key, format!("parsed {}x{} {:?}, the text denotes {}x{} {:?}", h.num_rows(), h.num_cols(), ones_of(&h), r, n, ones), replay);
                    }
                }
                Err(()) => {
                    // more lenient than the reference is acceptable only if nothing is invented
                    match declared(text) {
                        Some((r, n, ones)) if h.num_rows() == r && h.num_cols() == n && ones_of(&h).is_subset(&ones) => {
                            acc.count("impl_more_lenient_than_reference");
                        }
                        _ => acc.violate(key, "parser returned a matrix the text does not denote".into(), replay),
                    }
                }
            }
        }
        Ok(Err(_)) => {
            acc.outcome(&"err");
            if reference.is_ok() {
                acc.violate(key, "parser rejected a well-formed text".into(), replay);
            }
        }
    }
}

const HEADERS: [&str; 12] = ["2 2", "", "2", "0 0", "2 x", "-1 2", "3 2 9", "2 2\r", "1 3", "4 1", "0 3", "3 0"];
const SKIPPED: [&str; 3] = ["1 1", "", "x y z"];
const COLS: [&str; 11] = ["1", "", "0", "2", "1 2", "2 1", "1 1", "3", "7", "x", "18446744073709551616"];

fn soup_text(mut idx: u64, ncol_lines: usize, trailing_newline: bool) -> String {
    let mut lines = Vec::new();
    lines.push(HEADERS[(idx % 12) as usize].to_string());
    idx /= 12;
    for _ in 0..3 {
        lines.push(SKIPPED[(idx % 3) as usize].to_string());
        idx /= 3;
    }
    for _ in 0..ncol_lines {
        lines.push(COLS[(idx % 11) as usize].to_string());
        idx /= 11;
    }
    let mut s = lines.join("\n");
    if trailing_newline {
        s.push('\n');
    }
    s
}

fn mutations_of(text: &str) -> Vec<String> {
    let lines: Vec<Vec<String>> = text
        .split('\n')
        .map(|l| l.split(' ').map(|s| s.to_string()).collect())
        .collect();
    let render = |ls: &Vec<Vec<String>>| ls.iter().map(|l| l.join(" ")).collect::<Vec<_>>().join("\n");
    let mut out = Vec::new();
    for i in 0..lines.len() {
        // whole-line deletion and duplication
        let mut d = lines.clone();
        d.remove(i);
        out.push(render(&d));
        let mut d = lines.clone();
        d.insert(i, lines[i].clone());
        out.push(render(&d));
        for j in 0..lines[i].len() {
            let mut d = lines.clone();
            d[i].remove(j);
            out.push(render(&d));
            let mut d = lines.clone();
            let t = d[i][j].clone();
            d[i].insert(j, t);
            out.push(render(&d));
            for sub in ["0", "1", "2", "3", "4", "x", "-1", "1.0", "99999999999999999999"] {
                if lines[i][j] != sub {
                    let mut d = lines.clone();
                    d[i][j] = sub.to_string();
                    out.push(render(&d));
                }
            }
        }
    }
    // truncations at every byte
    for k in 0..text.len() {
        out.push(text[..k].to_string());
    }
    out
}

fn replay_element(v: &Value, acc: &mut Acc) {
    match v["kind"].as_str() {
        Some("roundtrip") => check_roundtrip(
            v["r"].as_u64().unwrap() as usize,
            v["n"].as_u64().unwrap() as usize,
            v["mask"].as_u64().unwrap(),
            acc,
        ),
        Some("text") => check_text(v["text"].as_str().unwrap(), "replay", acc),
        Some("big") => {
            for (name, r, n, e) in big_matrices(true) {
                if Some(name.as_str()) == v["name"].as_str() {
                    check_roundtrip_big(&name, r, n, &e, acc);
                }
            }
        }
        _ => machinery("C08: unknown replay element"),
    }
}

pub fn run(run: &Run) -> i32 {
    let mut acc = Acc::new();
    if let Some(p) = &run.replay {
        let v: Value = serde_json::from_str(&std::fs::read_to_string(p).unwrap_or_else(|_| machinery("cannot read replay"))).unwrap_or_else(|_| machinery("bad replay json"));
        replay_element(&v["element"], &mut acc);
    } else {
        let mut shapes = vec![];
        for r in 1..=3 {
            for n in 1..=3 {
                shapes.push((r, n));
            }
        }
        shapes.extend([(2, 5), (4, 3), (1, 6), (3, 4)]);
        if run.thorough() {
            shapes.extend([(3, 5), (4, 4), (2, 7), (5, 3)]);
        }
        for (r, n) in shapes {
            let a = par_fold(1u64 << (r * n), |mask, a| check_roundtrip(r, n, mask, a));
            acc = acc.merge(a);
        }
        let big = big_matrices(run.thorough());
        let a = par_items(&big, |(name, r, n, e), a| check_roundtrip_big(name, *r, *n, e, a));
        acc = acc.merge(a);
        // malformed-text menu
        let maxcols = if run.thorough() { 4 } else { 3 };
        for ncl in 0..=maxcols {
            let total = 12 * 27 * 11u64.pow(ncl as u32);
            for nl in [false, true] {
                let a = par_fold(total, |i, a| check_text(&soup_text(i, ncl, nl), "soup", a));
                acc = acc.merge(a);
            }
        }
        // single-token mutations of every valid alist of M(2,3)
        let mut texts = Vec::new();
        for mask in 0..64u64 {
            let h = Small::from_mask(2, 3, mask).sparse();
            // a writer failure is reported by the round-trip part; here it only removes a seed text
            if let Ok((a, b)) = guard(|| (h.alist(), h.alist_no_padding())) {
                texts.push(a);
                texts.push(b);
            }
        }
        let muts: Vec<String> = texts.iter().flat_map(|t| mutations_of(t)).collect();
        let a = par_items(&muts, |t, a| check_text(t, "mutation", a));
        acc = acc.merge(a);
    }
    finish(
        run,
        acc,
        Coverage {
            rule: "round trip: every matrix of the listed shapes (all 2^(r*n) masks) x 2 insertion orders x padded/unpadded, text checked by an independent grammar recogniser and parsed back; the same for larger matrices in 3 insertion orders (row weight 12, column weight 11, 1x5000 and 5000x1 all ones, 100x200 zero, 300x300, pseudo-random dense 20x70 and 9x1100; thorough also 70x20, 128x129); totality: full product of 12 headers x 3^3 skipped lines x 11^k column lines (k up to the bound) x trailing newline, plus every single-token deletion/duplication/substitution, line deletion/duplication and byte truncation of the 128 valid alists of M(2,3). Non-trivial = irregular column weights or zero matrix (round trip), text the reference parse rejects (totality).".into(),
            exhaustive: true,
            extra: serde_json::Map::new(),
            graph: None,
            assumptions: vec![
                "declared dimensions are kept <= 6: huge declared sizes exhaust memory and are excluded by the property ('moderate declared dimensions')".into(),
                "a parser more lenient than the reference is accepted as long as it invents no entry and keeps the header's dimensions".into(),
            ],
        },
    )
}
