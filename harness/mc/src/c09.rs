//! C09 — systematic conversion succeeds iff full rank and only permutes
//! columns. E-enum over all r x n binary matrices in the stated scopes.

use crate::common::*;
use crate::mats::Small;
use ldpc_toolbox::encoder::Encoder;
use ldpc_toolbox::systematic::{parity_to_systematic, Error};
use serde_json::{json, Value};

fn check_matrix(r: usize, n: usize, mask: u64, acc: &mut Acc) {
    let m = Small::from_mask(r, n, mask);
    acc.evals += 1;
    let key = format!("systematic:{}x{}:{}", r, n, m.alist_like());
    let replay = json!({"kind": "matrix", "r": r, "n": n, "mask": mask});
    let rank = m.rank();
    let h = m.sparse_var();
    let res = guard(|| parity_to_systematic(&h));
    match res {
        Err(e) => {
            acc.violate(key, format!("panicked: {} (reference rank {})", e, rank), replay);
        }
        Ok(Err(Error::NotFullRank)) => {
            acc.count("not_full_rank");
            if rank == r {
                acc.violate(key, "NotFullRank returned for a full-rank matrix".into(), replay);
            }
        }
        Ok(Err(e)) => acc.violate(key, format!("unexpected error {:?}", e), replay),
        Ok(Ok(out)) => {
            if rank < r {
                acc.violate(key, format!("Ok returned for a matrix of rank {} < {}", rank, r), replay);
                return;
            }
            acc.nontrivial += 1;
            if out.num_rows() != r || out.num_cols() != n {
                acc.violate(key, "shape changed".into(), replay);
                return;
            }
            let o = Small::from_sparse(&out);
            let mut a: Vec<u64> = (0..n).map(|j| m.column(j)).collect();
            let mut b: Vec<u64> = (0..n).map(|j| o.column(j)).collect();
            // recover a permutation: out column j = in column perm[j]
            let mut used = vec![false; n];
            let mut perm = vec![usize::MAX; n];
            for j in 0..n {
                if let Some(p) = (0..n).find(|&p| !used[p] && a[p] == b[j]) {
                    used[p] = true;
                    perm[j] = p;
                }
            }
            a.sort_unstable();
            b.sort_unstable();
            if a != b || perm.contains(&usize::MAX) {
                acc.violate(key, format!("columns of the result {} are not a permutation of the input's", o.alist_like()), replay);
                return;
            }
            if !o.tail_invertible() {
                acc.violate(key, format!("last {} columns of the result {} are singular", r, o.alist_like()), replay);
                return;
            }
            match guard(|| Encoder::from_h(&out)) {
                Ok(Ok(_)) => {}
                other => {
                    acc.violate(key, format!("Encoder::from_h rejects the result: {:?}", other.map(|r| r.map(|_| ()))), replay);
                    return;
                }
            }
            if n <= 8 {
                // the code is unchanged up to the recovered coordinate permutation
                let mut mapped: Vec<u64> = o
                    .codewords()
                    .into_iter()
                    .map(|x| (0..n).fold(0u64, |y, j| y | (((x >> j) & 1) << perm[j])))
                    .collect();
                mapped.sort_unstable();
                if mapped != m.codewords() {
                    acc.violate(key, "code changed beyond a coordinate permutation".into(), replay);
                    return;
                }
            }
            // pivots at the far right / all free columns first
            if (0..n - r).all(|j| m.column(j) == 0) && n > r {
                acc.count("all_free_columns_are_zero");
            }
            if n == r {
                acc.count("square_full_rank");
            }
            acc.outcome(&o.rows);
            if mask % 1013 == 7 {
                acc.sample(|| json!({"input": m.alist_like(), "output": o.alist_like(), "perm": perm}));
            }
        }
    }
}

/// Large matrices (more than a handful of rows): reference rank by big bit-set elimination.
fn check_big(name: &str, h: &ldpc_toolbox::sparse::SparseMatrix, acc: &mut Acc) {
    use crate::mats::Big;
    acc.evals += 1;
    let (r, n) = (h.num_rows(), h.num_cols());
    let key = format!("systematic:big:{}", name);
    let replay = json!({"kind": "big", "name": name});
    let rank = Big::from_sparse(h).rank();
    match guard(|| parity_to_systematic(h)) {
        Err(e) => acc.violate(key, format!("panicked: {} (reference rank {} of {})", e, rank, r), replay),
        Ok(Err(Error::NotFullRank)) => {
            acc.count("big_not_full_rank");
            if rank == r {
                acc.violate(key, format!("NotFullRank returned for a full-rank {}x{} matrix", r, n), replay);
            }
        }
        Ok(Err(e)) => acc.violate(key, format!("unexpected error {:?}", e), replay),
        Ok(Ok(out)) => {
            if rank < r {
                acc.violate(key, format!("Ok returned for a {}x{} matrix of rank {}", r, n, rank), replay);
                return;
            }
            acc.nontrivial += 1;
            let cols = |m: &ldpc_toolbox::sparse::SparseMatrix| -> Vec<Vec<usize>> {
                let mut v: Vec<Vec<usize>> = (0..m.num_cols())
                    .map(|j| {
                        let mut c: Vec<usize> = m.iter_col(j).cloned().collect();
                        c.sort_unstable();
                        c
                    })
                    .collect();
                v.sort();
                v
            };
            if out.num_rows() != r || out.num_cols() != n || cols(&out) != cols(h) {
                acc.violate(key, "columns of the result are not a permutation of the input's".into(), replay);
                return;
            }
            if Big::from_sparse_cols(&out, n - r).rank() != r {
                acc.violate(key, format!("last {} columns of the result are singular", r), replay);
                return;
            }
            match guard(|| Encoder::from_h(&out)) {
                Ok(Ok(_)) => {}
                other => acc.violate(key, format!("Encoder::from_h rejects the result: {:?}", other.map(|r| r.map(|_| ()))), replay),
            }
        }
    }
}

/// Deterministic families with many rows: [J-I | I], [I | J-I], banded, and pseudo-random dense.
fn big_families(thorough: bool) -> Vec<(String, ldpc_toolbox::sparse::SparseMatrix)> {
    use ldpc_toolbox::sparse::SparseMatrix;
    let mut out = Vec::new();
    let rmax = if thorough { 64 } else { 40 };
    for r in (6..=rmax).step_by(if thorough { 1 } else { 3 }).chain([15, 16, 17, 31, 32, 33].into_iter().filter(|&x| x <= rmax)) {
        // all-ones minus identity next to an identity (dense fill-in during elimination)
        let mut a = SparseMatrix::new(r, 2 * r);
        let mut b = SparseMatrix::new(r, 2 * r);
        for i in 0..r {
            for j in 0..r {
                if i != j {
                    a.insert(i, j);
                    b.insert(i, r + j);
                }
            }
            a.insert(i, r + i);
            b.insert(i, i);
        }
        out.push((format!("J-I|I:{}", r), a.clone()));
        out.push((format!("I|J-I:{}", r), b));
        // the same with the last row replaced by the sum of the first two (rank deficient)
        let mut d = a.clone();
        d.clear_row(r - 1);
        let cols: Vec<usize> = (0..2 * r).filter(|&c| a.contains(0, c) != a.contains(1, c)).collect();
        d.insert_row(r - 1, cols.iter());
        out.push((format!("J-I|I:rank-deficient:{}", r), d));
        // pseudo-random dense r x 2r (xorshift), two streams
        for stream in 0..2u64 {
            let mut x = 0x9E37_79B9_7F4A_7C15u64 ^ (r as u64 * 1_000_003 + stream);
            let mut m = SparseMatrix::new(r, 2 * r);
            for i in 0..r {
                for j in 0..2 * r {
                    x ^= x << 13;
                    x ^= x >> 7;
                    x ^= x << 17;
                    if x & 1 == 1 {
                        m.insert(i, j);
                    }
                }
            }
            out.push((format!("dense:{}:{}", r, stream), m));
        }
    }
    // many rows AND an early non-pivot column (zero or duplicate): 33 .. 257 rows (thorough 513)
    for r in if thorough { vec![33usize, 64, 65, 66, 129, 257, 513] } else { vec![33usize, 65, 66, 129, 257] } {
        // zero first column, then a unit lower-triangular block: full rank r x (r+1)
        let mut z = SparseMatrix::new(r, r + 1);
        for i in 0..r {
            z.insert(i, 1 + i);
            if i > 0 {
                z.insert(i, 1);
            }
            if i > 2 {
                z.insert(i, 1 + i / 2);
            }
        }
        out.push((format!("tall:zero-column+triangular:{}x{}", r, r + 1), z.clone()));
        // square with a zero first column: rank r-1
        let mut q = SparseMatrix::new(r, r);
        for i in 0..r {
            for j in 1..r {
                if z.contains(i, j) {
                    q.insert(i, j);
                }
            }
        }
        out.push((format!("tall:zero-column:square:{}x{}", r, r), q));
        // duplicate first two columns followed by a pseudo-random dense r x 2r block
        let mut x = 0xA5A5_5A5A_DEAD_BEEFu64 ^ (r as u64);
        let mut d = SparseMatrix::new(r, 2 * r + 2);
        for i in 0..r {
            if i % 3 != 1 {
                d.insert(i, 0);
                d.insert(i, 1);
            }
            for j in 2..2 * r + 2 {
                x ^= x << 13;
                x ^= x >> 7;
                x ^= x << 17;
                if x & 1 == 1 {
                    d.insert(i, j);
                }
            }
        }
        out.push((format!("tall:duplicate-columns+dense:{}x{}", r, 2 * r + 2), d));
    }
    out
}

/// Few rows, very many columns: widths around 256, 4096, 8192 (65536 thorough), i.e. around the
/// block sizes a cache-blocked or word-packed elimination would use.
fn wide_families(thorough: bool) -> Vec<(String, ldpc_toolbox::sparse::SparseMatrix)> {
    use ldpc_toolbox::sparse::SparseMatrix;
    let mut out = Vec::new();
    let mut widths = vec![63usize, 64, 65, 255, 256, 257, 4095, 4096, 4097, 5000, 8193];
    if thorough {
        widths.extend([16385, 65535, 65537]);
    }
    for &n in &widths {
        for r in [2usize, 3, 8] {
            // two equal rows {0, n-1}: rank r-1
            let mut d = SparseMatrix::new(r, n);
            for i in 0..r {
                if i < 2 {
                    d.insert(i, 0);
                    d.insert(i, n - 1);
                } else {
                    d.insert(i, n / 2 + i);
                    d.insert(i, i);
                }
            }
            out.push((format!("wide-duplicate-rows:{}x{}", r, n), d));
            // pivots at the left, further ones far to the right
            let mut f = SparseMatrix::new(r, n);
            for i in 0..r {
                f.insert(i, i);
                f.insert(i, n - 1 - i);
                f.insert(i, (i * 2_654_435_761 + 12_345) % n);
                if i > 0 {
                    f.insert(i, 0);
                    f.insert(i, n - 1);
                }
            }
            out.push((format!("wide-far:{}x{}", r, n), f));
            // all ones in the last r+2 columns only
            let mut g = SparseMatrix::new(r, n);
            for i in 0..r {
                for j in 0..r + 2 {
                    if (i + j) % 3 != 0 || i == j {
                        g.insert(i, n - 1 - j);
                    }
                }
            }
            out.push((format!("wide-right:{}x{}", r, n), g));
            // pseudo-random dense
            let mut x = 0x2545_F491_4F6C_DD1Du64 ^ ((n * 31 + r) as u64);
            let mut m = SparseMatrix::new(r, n);
            for i in 0..r {
                for j in 0..n {
                    x ^= x << 13;
                    x ^= x >> 7;
                    x ^= x << 17;
                    if x & 3 == 1 {
                        m.insert(i, j);
                    }
                }
            }
            out.push((format!("wide-dense:{}x{}", r, n), m));
        }
    }
    out
}

pub fn big_families_pub(thorough: bool) -> Vec<(String, ldpc_toolbox::sparse::SparseMatrix)> {
    big_families(thorough)
}

fn replay_element(v: &Value, acc: &mut Acc) {
    if v["kind"] == "big" {
        let name = v["name"].as_str().unwrap_or("");
        for (n, h) in big_families(true).into_iter().chain(wide_families(true)) {
            if n == name {
                check_big(&n, &h, acc);
            }
        }
        return;
    }
    check_matrix(v["r"].as_u64().unwrap() as usize, v["n"].as_u64().unwrap() as usize, v["mask"].as_u64().unwrap(), acc)
}

pub fn run(run: &Run) -> i32 {
    let mut acc = Acc::new();
    if let Some(p) = &run.replay {
        let v: Value = serde_json::from_str(&std::fs::read_to_string(p).unwrap_or_else(|_| machinery("cannot read replay"))).unwrap_or_else(|_| machinery("bad replay json"));
        replay_element(&v["element"], &mut acc);
    } else {
        let mut shapes = vec![];
        for r in 1..=3usize {
            for n in r..=5 {
                shapes.push((r, n));
            }
        }
        shapes.extend([(4, 4), (2, 6), (1, 7), (4, 5)]);
        if run.thorough() {
            shapes.extend([(3, 6), (4, 6), (5, 5), (3, 7), (2, 9)]);
        }
        for (r, n) in shapes {
            let a = par_fold(1u64 << (r * n), |mask, a| check_matrix(r, n, mask, a));
            acc = acc.merge(a);
        }
        let mut fam = big_families(run.thorough());
        fam.extend(wide_families(run.thorough()));
        let a = par_items(&fam, |(n, h), a| check_big(n, h, a));
        acc = acc.merge(a);
    }
    finish(
        run,
        acc,
        Coverage {
            rule: "every binary matrix of every listed shape r x n (all 2^(r*n) masks, duplicate-free); reference rank / invertibility by independent bit-set elimination; plus deterministic families with many rows ([J-I | I], [I | J-I], their rank-deficient variants and pseudo-random dense r x 2r matrices for r up to 40 (64); 33 .. 257 (513) rows with a zero or duplicate leading column), and wide families (2, 3, 8 rows; 63..8193 columns around 64, 256, 4096, 8192, thorough to 65537: duplicate rows, far-apart ones, ones only at the right end, pseudo-random dense). Non-trivial = full-rank input (conversion really performed); rank-deficient inputs are counted separately.".into(),
            exhaustive: true,
            extra: serde_json::Map::new(),
            graph: None,
            assumptions: vec!["shapes beyond the listed bounds are not claimed".into()],
        },
    )
}
