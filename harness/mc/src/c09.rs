//! C09 — systematic conversion succeeds iff full rank and only permutes
//! columns. E-enum over all r x n binary matrices in the stated scopes.

use crate::common::*;
use crate::mats::Small;
use ldpc_toolbox::encoder::Encoder;
use ldpc_toolbox::systematic::{parity_to_systematic, Error};
use serde_json::{json, Value};

fn check_matrix(r: usize, n: usize, mask: u64, acc: &mut Acc) {
    let m = Small::from_mask(r, n, mask);
    acc.evals += 1;
    let key = format!("systematic:{}x{}:{}", r, n, m.alist_like());
    let replay = json!({"kind": "matrix", "r": r, "n": n, "mask": mask});
    let rank = m.rank();
    let h = m.sparse();
    let res = guard(|| parity_to_systematic(&h));
    match res {
        Err(e) => {
            acc.violate(key, format!("panicked: {} (reference rank {})", e, rank), replay);
        }
        Ok(Err(Error::NotFullRank)) => {
            acc.count("not_full_rank");
            if rank == r {
                acc.violate(key, "NotFullRank returned for a full-rank matrix".into(), replay);
            }
        }
        Ok(Err(e)) => acc.violate(key, format!("unexpected error {:?}", e), replay),
        Ok(Ok(out)) => {
            if rank < r {
                acc.violate(key, format!("Ok returned for a matrix of rank {} < {}", rank, r), replay);
                return;
            }
            acc.nontrivial += 1;
            if out.num_rows() != r || out.num_cols() != n {
                acc.violate(key, "shape changed".into(), replay);
                return;
            }
            let o = Small::from_sparse(&out);
            let mut a: Vec<u64> = (0..n).map(|j| m.column(j)).collect();
            let mut b: Vec<u64> = (0..n).map(|j| o.column(j)).collect();
            // recover a permutation: out column j = in column perm[j]
            let mut used = vec![false; n];
            let mut perm = vec![usize::MAX; n];
            for j in 0..n {
                if let Some(p) = (0..n).find(|&p| !used[p] && a[p] == b[j]) {
                    used[p] = true;
                    perm[j] = p;
                }
            }
            a.sort_unstable();
            b.sort_unstable();
            if a != b || perm.contains(&usize::MAX) {
                acc.violate(key, format!("columns of the result {} are not a permutation of the input's", o.alist_like()), replay);
                return;
            }
            if !o.tail_invertible() {
                acc.violate(key, format!("last {} columns of the result {} are singular", r, o.alist_like()), replay);
                return;
            }
            match guard(|| Encoder::from_h(&out)) {
                Ok(Ok(_)) => {}
                other => {
                    acc.violate(key, format!("Encoder::from_h rejects the result: {:?}", other.map(|r| r.map(|_| ()))), replay);
                    return;
                }
            }
            if n <= 8 {
                // the code is unchanged up to the recovered coordinate permutation
                let mut mapped: Vec<u64> = o
                    .codewords()
                    .into_iter()
                    .map(|x| (0..n).fold(0u64, |y, j| y | (((x >> j) & 1) << perm[j])))
                    .collect();
                mapped.sort_unstable();
                if mapped != m.codewords() {
                    acc.violate(key, "code changed beyond a coordinate permutation".into(), replay);
                    return;
                }
            }
            // pivots at the far right / all free columns first
            if (0..n - r).all(|j| m.column(j) == 0) && n > r {
                acc.count("all_free_columns_are_zero");
            }
            if n == r {
                acc.count("square_full_rank");
            }
            acc.outcome(&o.rows);
            if mask % 1013 == 7 {
                acc.sample(|| json!({"input": m.alist_like(), "output": o.alist_like(), "perm": perm}));
            }
        }
    }
}

fn replay_element(v: &Value, acc: &mut Acc) {
    check_matrix(v["r"].as_u64().unwrap() as usize, v["n"].as_u64().unwrap() as usize, v["mask"].as_u64().unwrap(), acc)
}

pub fn run(run: &Run) -> i32 {
    let mut acc = Acc::new();
    if let Some(p) = &run.replay {
        let v: Value = serde_json::from_str(&std::fs::read_to_string(p).unwrap_or_else(|_| machinery("cannot read replay"))).unwrap_or_else(|_| machinery("bad replay json"));
        replay_element(&v["element"], &mut acc);
    } else {
        let mut shapes = vec![];
        for r in 1..=3usize {
            for n in r..=5 {
                shapes.push((r, n));
            }
        }
        shapes.extend([(4, 4), (2, 6), (1, 7), (4, 5)]);
        if run.thorough() {
            shapes.extend([(3, 6), (4, 6), (5, 5), (3, 7), (2, 9)]);
        }
        for (r, n) in shapes {
            let a = par_fold(1u64 << (r * n), |mask, a| check_matrix(r, n, mask, a));
            acc = acc.merge(a);
        }
    }
    finish(
        run,
        acc,
        Coverage {
            rule: "every binary matrix of every listed shape r x n (all 2^(r*n) masks, duplicate-free); reference rank / invertibility by independent bit-set elimination. Non-trivial = full-rank input (conversion really performed); rank-deficient inputs are counted separately.".into(),
            exhaustive: true,
            extra: serde_json::Map::new(),
            graph: None,
            assumptions: vec!["shapes beyond the listed bounds are not claimed".into()],
        },
    )
}
