//! C10 — a decoder object carries no state from one frame to the next.
//! E-bfs to closure: a state is the live decoder (keyed by its complete derived
//! Debug dump), a transition is one real decode call from the op menu, the
//! oracle on every transition is equality with a freshly built decoder.

use crate::common::*;
use crate::dec::{self, Dec};
use crate::mats::Small;
use serde_json::{json, Value};
use std::collections::HashMap;

fn matrices() -> Vec<(&'static str, Small)> {
    vec![
        ("johnson4x6", Small::from_rows(6, &[&[0, 1, 3], &[1, 2, 4], &[0, 4, 5], &[2, 3, 5]])),
        ("deg1and3_3x6", Small::from_rows(6, &[&[0, 1, 3], &[1, 2, 3, 4], &[0, 2, 4, 5]])),
        ("punct2x4", Small::from_rows(4, &[&[0, 1, 2], &[1, 2, 3]])),
        ("chain2x3", Small::from_rows(3, &[&[0, 1], &[1, 2]])),
        // row weights 3,5,4,5: lighter rows precede heavier ones (scratch buffers grow and are reused)
        ("irregular4x8", Small::from_rows(8, &[&[0, 1, 4], &[1, 2, 3, 5, 6], &[0, 2, 6, 7], &[1, 3, 4, 5, 7]])),
        ("hamming3x7", Small::from_rows(7, &[&[0, 1, 2, 4], &[1, 2, 3, 5], &[0, 2, 3, 6]])),
        // a variable that takes part in no check (all-zero column) and one of degree 1
        ("zerocol4x7", Small::from_rows(7, &[&[0, 1, 3], &[1, 2, 4], &[0, 4, 5], &[2, 3]])),
        // check degrees 9 and 10 (above any small-degree fast path), the lighter check first
        ("wide2x12", Small::from_rows(12, &[&[0, 1, 2, 3, 4, 5, 6, 7, 8], &[2, 3, 4, 5, 6, 7, 8, 9, 10, 11]])),
        // check degrees 17, 9, 18: non-monotone, crossing 16
        (
            "wide3x20",
            Small::from_rows(20, &[&[0, 1, 2, 3, 4, 5, 6, 7, 8, 9, 10, 11, 12, 13, 14, 15, 16], &[3, 5, 7, 9, 11, 13, 15, 17, 19], &[1, 2, 3, 4, 5, 6, 7, 8, 9, 10, 11, 12, 13, 14, 15, 17, 18, 19]]),
        ),
    ]
}

fn vectors(m: &Small, thorough: bool) -> Vec<Vec<f64>> {
    let n = m.n;
    let cws = m.codewords();
    let cw = cws.iter().cloned().find(|&c| c != 0).unwrap_or(0);
    let s = |c: u64, a: f64| -> Vec<f64> { (0..n).map(|j| if (c >> j) & 1 == 1 { -a } else { a }).collect() };
    let mut v = Vec::new();
    v.push(s(cw, 1.3863)); // shortcut
    v.push(s(0, 2.0)); // shortcut, all-zero word
    for p in 0..n.min(3) {
        let mut x = s(cw, 1.3863);
        x[p] = -x[p]; // single error
        v.push(x);
    }
    let mut x = s(cw, 1.3863);
    x[0] = -x[0];
    x[n - 1] = -x[n - 1]; // two errors
    v.push(x);
    v.push((0..n).map(|j| if j % 2 == 0 { 5.0 } else { -5.0 }).collect()); // contradiction
    v.push(vec![0.0; n]);
    v.push((0..n).map(|j| if j % 3 == 0 { -1e30 } else { 1e30 }).collect());
    v.push(vec![-0.7; n]);
    v.push((0..n).map(|j| if j % 2 == 0 { 1e-46 } else { -1e-46 }).collect());
    v.push((0..n).map(|j| [0.05, -15.9, 3.3, -0.0625, 12.6, -14.6][j % 6]).collect());
    let mut hist = vec![2.0; n];
    hist[0] = -0.1;
    if n > 2 {
        hist[2] = 3.0;
    }
    v.push(hist.clone());
    hist[0] = -1.0;
    v.push(hist);
    if thorough {
        for p in 0..n {
            let mut x = s(cw, 0.4);
            x[p] = -6.0 * x[p];
            v.push(x);
        }
        v.push((0..n).map(|j| [127.0 / 8.0, -100.0 / 8.0, 116.0 / 8.0, -0.0624][j % 4]).collect());
        v.push(vec![-1e-30; n]);
    }
    // drop vectors with a punctured-zero twin: keep as is (zeros are legal inputs)
    v.dedup();
    v
}

struct Machine<'a> {
    name: &'a str,
    mname: &'a str,
    m: &'a Small,
    ops: Vec<(usize, usize)>, // (vector index, limit)
    vecs: Vec<Vec<f64>>,
    fresh: Vec<Option<Dec>>,
}

impl Machine<'_> {
    fn rebuild(&self, hist: &[usize]) -> Result<Box<dyn ldpc_toolbox::decoder::LdpcDecoder>, String> {
        let mut d = dec::factory_build(self.name, self.m.sparse_var())?;
        for &o in hist {
            let (vi, l) = self.ops[o];
            let _ = guard(|| d.decode(&self.vecs[vi], l))?;
        }
        Ok(d)
    }
}

/// Returns (states, transitions, depth, closed, nontrivial transitions)
fn explore(name: &str, mname: &str, m: &Small, thorough: bool, acc: &mut Acc) -> (u64, u64, usize, bool) {
    let vecs = vectors(m, thorough);
    let limits: Vec<usize> = if thorough { vec![0, 1, 2, 6, 25] } else { vec![0, 1, 2, 6] };
    let mut ops = Vec::new();
    for vi in 0..vecs.len() {
        for &l in &limits {
            ops.push((vi, l));
        }
    }
    let mut mach = Machine { name, mname, m, ops, vecs, fresh: Vec::new() };
    // fresh-decoder answers, one new decoder per op
    for &(vi, l) in &mach.ops {
        let r = guard(|| {
            let mut d = dec::factory_build(name, m.sparse_var()).unwrap();
            d.decode(&mach.vecs[vi], l)
        });
        mach.fresh.push(r.ok());
    }
    let init = dec::factory_build(name, m.sparse_var()).unwrap();
    let mut seen: HashMap<String, ()> = HashMap::new();
    seen.insert(format!("{:?}", init), ());
    let mut frontier: Vec<Vec<usize>> = vec![vec![]];
    let (mut states, mut transitions, mut depth) = (1u64, 0u64, 0usize);
    let cap_depth = 20;
    let mut closed = true;
    let mut determinism_probe = 0u64;
    let cap_states = 4000u64;
    while !frontier.is_empty() {
        // safety nets: a decoder that does carry state between frames has a state space that
        // does not close; violations are already recorded by then
        if depth >= cap_depth || states >= cap_states || acc.viol_total >= 200 {
            closed = false;
            break;
        }
        depth += 1;
        let mut next = Vec::new();
        for hist in &frontier {
            let last_was_shortcut = hist.last().map_or(true, |&o| matches!(&mach.fresh[o], Some(Ok(out)) if out.iterations == 0));
            for oi in 0..mach.ops.len() {
                transitions += 1;
                acc.evals += 1;
                let mut d = match mach.rebuild(hist) {
                    Ok(d) => d,
                    Err(e) => machinery(&format!("C10: cannot rebuild state: {}", e)),
                };
                let (vi, l) = mach.ops[oi];
                let got = guard(|| d.decode(&mach.vecs[vi], l));
                let mut h2 = hist.clone();
                h2.push(oi);
                let describe = |h: &[usize]| -> Vec<String> { h.iter().map(|&o| format!("decode(v{},{})", mach.ops[o].0, mach.ops[o].1)).collect() };
                let key = format!("stateless:{}:{}:{:?}", mach.name, mach.mname, describe(&h2));
                let replay = json!({"kind": "history", "name": mach.name, "matrix": mach.mname, "thorough_menu": thorough, "ops": h2});
                match (&got, &mach.fresh[oi]) {
                    (Ok(g), Some(f)) => {
                        if g != f {
                            acc.violate(key, format!("after {:?}: decode({:?},{}) = {} but a fresh decoder returns {}", describe(hist), mach.vecs[vi], l, dec::show(g), dec::show(f)), replay);
                            continue;
                        }
                        acc.outcome(&(mach.name, mach.mname, dec::show(g)));
                    }
                    (Err(e), Some(_)) => {
                        acc.violate(key, format!("after {:?}: decode panicked ({}) but a fresh decoder does not", describe(hist), e), replay);
                        continue;
                    }
                    (Ok(_), None) => {
                        acc.violate(key, "fresh decoder panics but a used one does not".into(), replay);
                        continue;
                    }
                    (Err(_), None) => continue,
                }
                if !hist.is_empty() && !last_was_shortcut {
                    acc.nontrivial += 1;
                }
                let k = format!("{:?}", d);
                if !seen.contains_key(&k) {
                    seen.insert(k.clone(), ());
                    states += 1;
                    // determinism self-check on a sample of states
                    determinism_probe += 1;
                    if determinism_probe % 16 == 1 {
                        let d2 = mach.rebuild(&h2).unwrap();
                        if format!("{:?}", d2) != k {
                            machinery("C10: rebuilding a state twice gave different objects (nondeterminism)");
                        }
                    }
                    next.push(h2);
                }
            }
        }
        frontier = next;
    }
    (states, transitions, depth, closed)
}

/// Matrices beyond 64 columns (a check or a variable of degree 17..257, 1025 rows): every history of
/// two decode calls over a menu of 4 vectors x 2 limits, second call compared with a fresh decoder.
fn explore_big(name: &str, mname: &str, n: usize, rows: &[Vec<usize>], acc: &mut Acc) -> u64 {
    let build = || {
        let mut h = ldpc_toolbox::sparse::SparseMatrix::new(rows.len(), n);
        for (i, r) in rows.iter().enumerate() {
            for &j in r {
                h.insert(i, j);
            }
        }
        h
    };
    let vecs: Vec<Vec<f64>> = vec![
        vec![2.0; n],
        vec![-6.0; n],
        (0..n).map(|j| if j % 3 == 0 { -3.0 } else { 6.0 }).collect(),
        (0..n).map(|j| if j % 2 == 0 { 1.3863 } else { -1.3863 }).collect(),
    ];
    let ops: Vec<(usize, usize)> = (0..vecs.len()).flat_map(|v| [(v, 1usize), (v, 3)]).collect();
    let fresh: Vec<Option<Dec>> = ops.iter().map(|&(v, l)| guard(|| dec::factory_build(name, build()).unwrap().decode(&vecs[v], l)).ok()).collect();
    let mut transitions = 0u64;
    for a in 0..ops.len() {
        if fresh[a].is_none() {
            // the first call alone panics: that is C01's finding, not a statement about carried state
            continue;
        }
        for b in 0..ops.len() {
            transitions += 1;
            acc.evals += 1;
            acc.nontrivial += 1;
            let key = format!("stateless:{}:{}:[decode(v{},{}), decode(v{},{})]", name, mname, ops[a].0, ops[a].1, ops[b].0, ops[b].1);
            let replay = json!({"kind": "big", "name": name, "matrix": mname});
            let got = guard(|| {
                let mut d = dec::factory_build(name, build()).unwrap();
                let _ = d.decode(&vecs[ops[a].0], ops[a].1);
                d.decode(&vecs[ops[b].0], ops[b].1)
            });
            match (&got, &fresh[b]) {
                (Ok(g), Some(f)) if g == f => {}
                (Ok(g), Some(f)) => {
                    let short = |d: &Dec| {
                        let (tag, o) = match d {
                            Ok(o) => ("Ok", o),
                            Err(o) => ("Err", o),
                        };
                        let diff = match (g, f) {
                            (Ok(x), Ok(y)) | (Err(x), Err(y)) | (Ok(x), Err(y)) | (Err(x), Ok(y)) => x.codeword.iter().zip(y.codeword.iter()).position(|(a, b)| a != b),
                        };
                        format!("{}(iterations {}, first differing bit {:?})", tag, o.iterations, diff)
                    };
                    acc.violate(key, format!("second call returns {} but a fresh decoder returns {}", short(g), short(f)), replay)
                }
                (Err(e), Some(_)) => acc.violate(key, format!("second call panicked ({}) but a fresh decoder does not", e), replay),
                (Ok(_), None) => acc.violate(key, "fresh decoder panics but a used one does not".into(), replay),
                (Err(_), None) => {}
            }
        }
    }
    transitions
}

fn replay_element(v: &Value, acc: &mut Acc) {
    if v["kind"] == "big" {
        for (mname, n, rows) in crate::c01::big_matrices(true) {
            if Some(mname.as_str()) == v["matrix"].as_str() {
                explore_big(v["name"].as_str().unwrap_or(""), &mname, n, &rows, acc);
            }
        }
        return;
    }
    let name = v["name"].as_str().unwrap();
    let mname = v["matrix"].as_str().unwrap();
    let thorough = v["thorough_menu"].as_bool().unwrap_or(false);
    let (_, m) = matrices().into_iter().find(|(n, _)| *n == mname).unwrap_or_else(|| machinery("unknown matrix"));
    let vecs = vectors(&m, thorough);
    let limits: Vec<usize> = if thorough { vec![0, 1, 2, 6, 25] } else { vec![0, 1, 2, 6] };
    let mut ops = Vec::new();
    for vi in 0..vecs.len() {
        for &l in &limits {
            ops.push((vi, l));
        }
    }
    let hist: Vec<usize> = v["ops"].as_array().unwrap().iter().map(|x| x.as_u64().unwrap() as usize).collect();
    let mut d = dec::factory_build(name, m.sparse_var()).unwrap();
    for (step, &o) in hist.iter().enumerate() {
        acc.evals += 1;
        let (vi, l) = ops[o];
        let got = guard(|| d.decode(&vecs[vi], l));
        let fresh = guard(|| dec::factory_build(name, m.sparse_var()).unwrap().decode(&vecs[vi], l));
        if got != fresh {
            acc.violate(format!("stateless:{}:{}:replay", name, mname), format!("step {}: {:?} vs fresh {:?}", step, got.as_ref().map(dec::show), fresh.as_ref().map(dec::show)), v.clone());
            return;
        }
    }
}

pub fn run(run: &Run) -> i32 {
    let mut acc = Acc::new();
    let mut extra = serde_json::Map::new();
    let mut graph = (0u64, 0u64, 0u64);
    let mut all_closed = true;
    if let Some(p) = &run.replay {
        let v: Value = serde_json::from_str(&std::fs::read_to_string(p).unwrap_or_else(|_| machinery("cannot read replay"))).unwrap_or_else(|_| machinery("bad replay json"));
        replay_element(&v["element"], &mut acc);
        graph = (1, acc.evals.max(1), acc.evals);
    } else {
        let names = dec::names();
        let mats = matrices();
        let mut machines = Vec::new();
        for name in &names {
            for (mname, m) in &mats {
                machines.push((name.clone(), *mname, m.clone()));
            }
        }
        use rayon::prelude::*;
        let results: Vec<(Acc, (u64, u64, usize, bool), String, &str)> = machines
            .par_iter()
            .map(|(name, mname, m)| {
                let mut a = Acc::new();
                let r = explore(name, mname, m, run.thorough(), &mut a);
                (a, r, name.clone(), *mname)
            })
            .collect();
        let mut per = Vec::new();
        for (a, (s, t, d, closed), name, mname) in results {
            acc = acc.merge(a);
            graph.0 += s;
            graph.1 += t;
            graph.2 += t;
            all_closed &= closed;
            per.push(json!({"impl": name, "matrix": mname, "states": s, "transitions": t, "depth": d, "closed": closed}));
        }
        // large degrees / more than 1024 rows: depth-2 histories
        let big = crate::c01::big_matrices(run.thorough());
        let mut bigjobs: Vec<(String, usize)> = Vec::new();
        for name in &names {
            for i in 0..big.len() {
                bigjobs.push((name.clone(), i));
            }
        }
        let counts: Vec<(Acc, u64)> = bigjobs
            .par_iter()
            .map(|(name, i)| {
                let mut a = Acc::new();
                let t = explore_big(name, &big[*i].0, big[*i].1, &big[*i].2, &mut a);
                (a, t)
            })
            .collect();
        let mut big_transitions = 0u64;
        for (a, t) in counts {
            acc = acc.merge(a);
            big_transitions += t;
        }
        graph.1 += big_transitions;
        graph.2 += big_transitions;
        extra.insert("big_matrix_depth2_transitions".into(), json!(big_transitions));
        acc.sample(|| json!({"history": ["decode(single-error vector, 6)", "decode(contradiction vector, 0)"], "note": "every history over the op menu is covered up to closure; see per_machine"}));
        extra.insert("per_machine".into(), Value::Array(per));
        extra.insert("machines".into(), json!(machines.len()));
    }
    extra.insert("closure_reached_everywhere".into(), json!(all_closed));
    finish(
        run,
        acc,
        Coverage {
            rule: "for each of the 36 implementations x 9 matrices (regular, with an all-zero column, with degree-1 and degree-3 variables, punctured, chain, row weights 3-5-4-5, Hamming, check degrees 9-10, check degrees 17-9-18): BFS over histories of decode(v, L) calls, v from a menu of ~14 (23 thorough) LLR vectors (codeword signs, single/double errors, contradiction, zeros, +-1e30, all-negative, +-1e-46, 8-bit boundary magnitudes, the historical limit-0 pair) x L in {0,1,2,6[,25]}; state key = the decoder's full derived Debug dump (every field, floats in round-trip form), so merged states are identical objects; search to closure (depth cap 20, 4000 states per machine and 200 violations per machine as safety nets, reported if hit). Oracle per transition: result equals a freshly built decoder's. In addition, for matrices with a check or a variable of degree 17, 65, 129, 257 and a 1025-row block-diagonal matrix (thorough: more), every history of two decode calls over 4 vectors x 2 limits (depth-bounded, not closed). Non-trivial = transition from a non-initial state whose previous call was not a zero-iteration shortcut.".into(),
            exhaustive: all_closed,
            extra,
            graph: Some(graph),
            assumptions: vec!["LLR vectors outside the op menu and matrices other than the nine listed are not explored".into()],
        },
    )
}
