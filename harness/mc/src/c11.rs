//! C11 — girth and BFS distances are exact graph quantities.
//! E-enum: every small matrix x every root x every bound, plus three
//! structured families up to 12 x 12, against an independent reference
//! (edge-deletion local girth, plain BFS distances).

use crate::common::*;
use crate::mats::{RefGraph, Small};
use ldpc_toolbox::sparse::{Node, SparseMatrix};
use serde_json::{json, Value};

const BOUNDS: [usize; 14] = [0, 1, 2, 3, 4, 5, 6, 7, 8, 9, 10, 12, 16, usize::MAX];

pub fn check_graph(m: &Small, origin: &str, acc: &mut Acc) {
    let key = format!("girth:{}x{}:{}", m.r, m.n, m.alist_like());
    let replay = json!({"kind": "graph", "n": m.n, "rows": m.rows, "origin": origin});
    let g = RefGraph::from_small(m);
    let h = m.sparse_var();
    check_graph_h(key, replay, &g, &h, &BOUNDS, &m.alist_like(), acc)
}

/// The oracle proper: `g` is the reference graph of `h`.
fn check_graph_h(key: String, replay: Value, g: &RefGraph, h: &SparseMatrix, bounds: &[usize], label: &str, acc: &mut Acc) {
    acc.evals += 1;
    struct Dims {
        r: usize,
        n: usize,
    }
    let m = Dims { r: h.num_rows(), n: h.num_cols() };
    let ref_girth = g.girth();
    if ref_girth.is_some() {
        acc.nontrivial += 1;
    }
    // global girth
    match guard(|| (h.girth(), bounds.iter().map(|&b| h.girth_with_max(b)).collect::<Vec<_>>())) {
        Err(e) => {
            acc.violate(key, format!("girth panicked: {}", e), replay);
            return;
        }
        Ok((gg, bounded)) => {
            if gg != ref_girth {
                acc.violate(key, format!("girth() = {:?}, shortest cycle = {:?}", gg, ref_girth), replay);
                return;
            }
            for (&b, got) in bounds.iter().zip(bounded) {
                let want = ref_girth.filter(|&x| x <= b);
                if got != want {
                    acc.violate(key, format!("girth_with_max({}) = {:?}, expected {:?}", b, got, want), replay);
                    return;
                }
            }
        }
    }
    let mut on_no_cycle_but_cyclic_component = false;
    for v in 0..(m.r + m.n) {
        let node = if v < m.r { Node::Row(v) } else { Node::Col(v - m.r) };
        let want_local = g.local_girth(v);
        let dist = g.dist(v, None);
        let res = guard(|| {
            (
                h.bfs(node),
                h.girth_at_node(node),
                bounds.iter().map(|&b| h.girth_at_node_with_max(node, b)).collect::<Vec<_>>(),
            )
        });
        match res {
            Err(e) => {
                acc.violate(key, format!("panicked at {:?}: {}", node, e), replay);
                return;
            }
            Ok((bfs, local, bounded)) => {
                let want_rows: Vec<Option<usize>> = dist[..m.r].to_vec();
                let want_cols: Vec<Option<usize>> = dist[m.r..].to_vec();
                if bfs.row_nodes_distance != want_rows || bfs.col_nodes_distance != want_cols {
                    acc.violate(key, format!("bfs({:?}) = rows {:?} cols {:?}, shortest paths are rows {:?} cols {:?}", node, bfs.row_nodes_distance, bfs.col_nodes_distance, want_rows, want_cols), replay);
                    return;
                }
                if local != want_local {
                    acc.violate(key, format!("girth_at_node({:?}) = {:?}, shortest cycle through the node = {:?}", node, local, want_local), replay);
                    return;
                }
                for (&b, got) in bounds.iter().zip(bounded) {
                    let want = want_local.filter(|&x| x <= b);
                    if got != want {
                        acc.violate(key, format!("girth_at_node_with_max({:?}, {}) = {:?}, expected {:?}", node, b, got, want), replay);
                        return;
                    }
                }
                if want_local.is_none() && ref_girth.is_some() {
                    // node off every cycle; is a cycle reachable from it?
                    let reach_cycle = (0..m.r + m.n).any(|u| dist[u].is_some() && g.local_girth(u).is_some());
                    if reach_cycle {
                        on_no_cycle_but_cyclic_component = true;
                    }
                }
                acc.outcome(&(local, bfs.row_nodes_distance.clone(), bfs.col_nodes_distance.clone()));
            }
        }
    }
    if on_no_cycle_but_cyclic_component {
        acc.count("graphs_with_pendant_node_attached_to_cycle");
    }
    if ref_girth.is_none() {
        acc.count("forests");
    }
    if acc.evals % 1777 == 11 {
        acc.sample(|| json!({"H": label, "girth": ref_girth}));
    }
}

/// Cycle of length 2L (rows 0..L, cols 0..L) with a pendant path of p edges
/// attached at node `attach` of the cycle (even = row, odd = column index).
fn cycle_with_pendant(l: usize, p: usize, attach: usize) -> Small {
    let extra = p.div_ceil(2) + 1;
    let (r, n) = (l + extra, l + extra);
    let mut rows = vec![0u64; r];
    for i in 0..l {
        rows[i] |= 1 << i;
        rows[i] |= 1 << ((i + 1) % l);
    }
    // path alternates row/col nodes starting from the attachment node
    let mut cur_is_row = attach % 2 == 0;
    let mut cur = attach / 2 % l;
    let mut next_row = l;
    let mut next_col = l;
    for _ in 0..p {
        if cur_is_row {
            rows[cur] |= 1 << next_col;
            cur = next_col;
            next_col += 1;
        } else {
            rows[next_row] |= 1 << cur;
            cur = next_row;
            next_row += 1;
        }
        cur_is_row = !cur_is_row;
    }
    Small { r, n, rows }
}

/// Two cycles sharing a path: theta graph with three internally disjoint
/// column-to-column paths of a, b, c row-steps between Col(0) and Col(1).
fn theta(a: usize, b: usize, c: usize) -> Small {
    // each path with t rows uses t rows and t-1 extra columns
    let r = a + b + c;
    let n = 2 + (a - 1) + (b - 1) + (c - 1);
    let mut rows = vec![0u64; r];
    let mut row = 0;
    let mut col = 2;
    for t in [a, b, c] {
        let mut prev = 0usize; // Col(0)
        for s in 0..t {
            rows[row] |= 1 << prev;
            let next = if s == t - 1 {
                1
            } else {
                let x = col;
                col += 1;
                x
            };
            rows[row] |= 1 << next;
            prev = next;
            row += 1;
        }
    }
    Small { r, n, rows }
}

fn complete_minus_matching(r: usize, n: usize) -> Small {
    let rows = (0..r).map(|i| ((1u64 << n) - 1) & !(1u64 << (i % n))).collect();
    Small { r, n, rows }
}

/// Graphs beyond 64 columns (long cycles and paths, hubs of degree 100, several components),
/// built directly as sparse matrices in a scrambled edge order. Returned with their names.
fn large_graphs(thorough: bool) -> Vec<(String, SparseMatrix)> {
    let mut out = Vec::new();
    let build = |r: usize, n: usize, mut edges: Vec<(usize, usize)>, salt: usize| -> SparseMatrix {
        // deterministic scramble of the insertion order
        let len = edges.len().max(1);
        let step = (7 + salt..).find(|s| gcd(*s, len) == 1).unwrap();
        let mut h = SparseMatrix::new(r, n);
        for k in 0..edges.len() {
            let (i, j) = edges[(k * step + salt) % len];
            h.insert(i, j);
        }
        edges.clear();
        h
    };
    let cycle_edges = |l: usize, r0: usize, c0: usize| -> Vec<(usize, usize)> { (0..l).flat_map(|i| [(r0 + i, c0 + i), (r0 + i, c0 + (i + 1) % l)]).collect() };
    // lengths / hub degrees just past 16, 32, 64, 128, 256 (thorough: 512, 1024)
    let ls: Vec<usize> = if thorough { vec![17, 33, 63, 64, 65, 100, 129, 255, 256, 257, 513, 1025] } else { vec![17, 33, 65, 129, 257] };
    for &l in &ls {
        out.push((format!("cycle:{}", l), build(l, l, cycle_edges(l, 0, 0), l)));
        // with a chord: row 0 also joins the column opposite
        let mut e = cycle_edges(l, 0, 0);
        e.push((0, l / 2));
        out.push((format!("cycle-with-chord:{}", l), build(l, l, e, l + 1)));
        // two components of different girth, and an isolated row and column
        let mut e = cycle_edges(l, 0, 0);
        e.extend(cycle_edges(3, l, l));
        out.push((format!("two-cycles:{}+3", l), build(l + 4, l + 4, e, l + 2)));
        // path: row i joins columns i and i+1 (a forest)
        let e: Vec<(usize, usize)> = (0..l).flat_map(|i| [(i, i), (i, i + 1)]).collect();
        out.push((format!("path:{}", l), build(l, l + 1, e, l + 3)));
        // hub: row 0 joins every column, rows 1..4 close cycles far apart
        let mut e: Vec<(usize, usize)> = (0..l).map(|j| (0, j)).collect();
        e.extend([(1, 0), (1, l - 1), (2, l / 2), (2, l / 2 + 1), (3, 1), (4, 2), (4, 3), (4, l - 2)]);
        out.push((format!("hub:{}", l), build(5, l, e, l + 4)));
        // tall: the transpose of the hub (more rows than columns)
        let mut e: Vec<(usize, usize)> = (0..l).map(|i| (i, 0)).collect();
        e.extend([(0, 1), (l - 1, 1), (l / 2, 2), (l / 2 + 1, 2), (1, 3)]);
        out.push((format!("tall-hub:{}", l), build(l, 4, e, l + 5)));
    }
    // a hub of degree L whose adjacency list is in ascending order (position = index), and ONE further
    // node joining two chosen neighbours: exactly one cycle through the hub, between two chosen
    // positions of its list (positions 255 / 256 / 257 are where an 8-bit position tag would wrap)
    for &l in if thorough { &[257usize, 300, 513, 1025][..] } else { &[257usize, 300][..] } {
        for (a, b) in [(0usize, 256usize), (1, 257), (255, 0), (255, 256), (254, 255), (17, 200), (3, 259)] {
            if a >= l || b >= l {
                continue;
            }
            let mut h = SparseMatrix::new(2, l);
            for j in 0..l {
                h.insert(0, j);
            }
            h.insert(1, a);
            h.insert(1, b);
            out.push((format!("hub-pair:row:{}:{}-{}", l, a, b), h));
            let mut h = SparseMatrix::new(l, 2);
            for i in 0..l {
                h.insert(i, 0);
            }
            h.insert(a, 1);
            h.insert(b, 1);
            out.push((format!("hub-pair:col:{}:{}-{}", l, a, b), h));
        }
    }
    out
}

fn gcd(a: usize, b: usize) -> usize {
    if b == 0 {
        a
    } else {
        gcd(b, a % b)
    }
}

fn check_large(name: &str, h: &SparseMatrix, acc: &mut Acc) {
    let g = RefGraph::from_sparse(h);
    let girth = g.girth();
    let mut bounds = BOUNDS.to_vec();
    if let Some(x) = girth {
        bounds.extend([x.saturating_sub(2), x - 1, x, x + 1, x + 2]);
    }
    bounds.extend([64, 66, 128, 130, 200, 258, 260, 514, 516, 1026, 2050, 2052]);
    bounds.sort_unstable();
    bounds.dedup();
    check_graph_h(format!("girth:large:{}", name), json!({"kind": "large", "name": name}), &g, h, &bounds, name, acc)
}

/// Hubs too large for the edge-deletion reference (degree just past 4096 and 65536): a hub and ONE
/// further node joining two chosen neighbours, so every answer is known in closed form.
fn check_giant_hub(l: usize, a: usize, b: usize, transposed: bool, acc: &mut Acc) {
    acc.evals += 1;
    acc.nontrivial += 1;
    let key = format!("girth:giant-hub:{}:{}:{}-{}", if transposed { "col" } else { "row" }, l, a, b);
    let replay = json!({"kind": "giant", "l": l, "a": a, "b": b, "transposed": transposed});
    let mut h = if transposed { SparseMatrix::new(l, 2) } else { SparseMatrix::new(2, l) };
    for j in 0..l {
        if transposed {
            h.insert(j, 0);
        } else {
            h.insert(0, j);
        }
    }
    for &x in &[a, b] {
        if transposed {
            h.insert(x, 1);
        } else {
            h.insert(1, x);
        }
    }
    let (hub, other) = if transposed { (Node::Col(0), Node::Col(1)) } else { (Node::Row(0), Node::Row(1)) };
    let leaf = |x: usize| if transposed { Node::Row(x) } else { Node::Col(x) };
    let off = (0..l).find(|x| *x != a && *x != b).unwrap();
    let res = guard(|| {
        (
            // the global searches visit every node as a root: quadratic, only for the smaller hubs
            if l <= 5000 { h.girth() } else { Some(4) },
            if l <= 5000 { h.girth_with_max(4) } else { Some(4) },
            if l <= 5000 { h.girth_with_max(3) } else { None },
            h.girth_at_node(hub),
            h.girth_at_node(other),
            h.girth_at_node(leaf(a)),
            h.girth_at_node(leaf(b)),
            h.girth_at_node(leaf(off)),
            h.girth_at_node_with_max(hub, 4),
            h.girth_at_node_with_max(hub, 2),
        )
    });
    match res {
        Err(e) => acc.violate(key, format!("panicked: {}", e), replay),
        Ok(got) => {
            let want = (Some(4), Some(4), None, Some(4), Some(4), Some(4), Some(4), None, Some(4), None);
            if got != want {
                acc.violate(key, format!("(girth, girth_with_max 4 / 3, girth_at_node hub / other / a / b / a leaf off the cycle, bounded at the hub 4 / 2) = {:?}, expected {:?}", got, want), replay);
            }
        }
    }
}

fn replay_element(v: &Value, acc: &mut Acc) {
    if v["kind"] == "giant" {
        check_giant_hub(v["l"].as_u64().unwrap() as usize, v["a"].as_u64().unwrap() as usize, v["b"].as_u64().unwrap() as usize, v["transposed"].as_bool().unwrap(), acc);
        return;
    }
    if v["kind"] == "large" {
        for (n, h) in large_graphs(true).into_iter().chain(large_graphs(false)) {
            if Some(n.as_str()) == v["name"].as_str() {
                check_large(&n, &h, acc);
                return;
            }
        }
        machinery("unknown large graph in replay");
    }
    let n = v["n"].as_u64().unwrap() as usize;
    let rows: Vec<u64> = v["rows"].as_array().unwrap().iter().map(|x| x.as_u64().unwrap()).collect();
    check_graph(&Small { r: rows.len(), n, rows }, "replay", acc)
}

pub fn run(run: &Run) -> i32 {
    let mut acc = Acc::new();
    if let Some(p) = &run.replay {
        let v: Value = serde_json::from_str(&std::fs::read_to_string(p).unwrap_or_else(|_| machinery("cannot read replay"))).unwrap_or_else(|_| machinery("bad replay json"));
        replay_element(&v["element"], &mut acc);
    } else {
        let mut shapes = vec![];
        for r in 1..=3usize {
            for n in 1..=3 {
                shapes.push((r, n));
            }
        }
        shapes.extend([(3, 4), (4, 3), (2, 6), (4, 4), (3, 5), (5, 3), (4, 5), (5, 4)]);
        if run.thorough() {
            shapes.extend([(3, 6), (6, 3), (2, 9)]);
        }
        for (r, n) in shapes {
            let a = par_fold(1u64 << (r * n), |mask, a| check_graph(&Small::from_mask(r, n, mask), "dense", a));
            acc = acc.merge(a);
        }
        let mut fam = Vec::new();
        for l in 2..=6 {
            for p in 1..=8 {
                for attach in 0..2 * l {
                    fam.push(cycle_with_pendant(l, p, attach));
                }
            }
        }
        for a in 1..=4 {
            for b in a..=4 {
                for c in b..=4 {
                    if a + b >= 2 && (a, b) != (1, 1) {
                        fam.push(theta(a, b, c));
                    }
                }
            }
        }
        for r in 2..=12 {
            for n in 2..=12 {
                fam.push(complete_minus_matching(r, n));
            }
        }
        let a = par_items(&fam, |m, a| check_graph(m, "family", a));
        acc = acc.merge(a);
        let mut giants: Vec<(usize, usize, usize, bool)> = Vec::new();
        for &l in if run.thorough() { &[4097usize, 32769, 65537, 65600, 131073][..] } else { &[4097usize, 65537, 65600][..] } {
            for (a, b) in [(0usize, l - 1), (0, 65536), (1, 65537), (4095, 4096), (65535, 65536), (17, 200), (0, 4096), (l - 2, l - 1)] {
                if a < l && b < l && a != b {
                    giants.push((l, a, b, false));
                    giants.push((l, a, b, true));
                }
            }
        }
        let a = par_items(&giants, |&(l, x, y, t), a| check_giant_hub(l, x, y, t, a));
        acc = acc.merge(a);
        let large = large_graphs(run.thorough());
        let a = par_items(&large, |(n, h), a| check_large(n, h, a));
        acc = acc.merge(a);
        // every 5x5 supergraph of a fixed cycle through Col(0) / Row(0): all labellings of the
        // remaining entries (side cycles on the arms, chords, pendant parts in every combination)
        let skeletons: Vec<Vec<(usize, usize)>> = vec![
            vec![(0, 0), (0, 2), (4, 2), (4, 4), (1, 4), (1, 0)],                 // 6-cycle
            vec![(0, 0), (0, 1), (1, 1), (1, 2), (2, 2), (2, 3), (3, 3), (3, 0)], // 8-cycle
        ];
        for sk in skeletons {
            let fixed: u64 = sk.iter().fold(0, |a, &(i, j)| a | (1u64 << (i * 5 + j)));
            let free: Vec<usize> = (0..25).filter(|b| (fixed >> b) & 1 == 0).collect();
            let nfree = if run.thorough() { free.len() } else { free.len().min(17) };
            let a = par_fold(1u64 << nfree, |x, a| {
                let mut mask = fixed;
                for (k, &b) in free.iter().take(nfree).enumerate() {
                    if (x >> k) & 1 == 1 {
                        mask |= 1u64 << b;
                    }
                }
                check_graph(&Small::from_mask(5, 5, mask), "skeleton5x5", a);
            });
            acc = acc.merge(a);
        }
    }
    finish(
        run,
        acc,
        Coverage {
            rule: "every binary matrix of every listed shape (all masks) x every row and column root x bounds {0..10,12,16,MAX}; families: 2L-cycle with a pendant path of 1..8 edges at every attachment point (L=2..6), theta graphs (two cycles sharing a path), complete bipartite minus a matching up to 12x12; large graphs (2L-cycles for L = 17, 33, 65, 129, 257 (thorough to 1025), with a chord, two components, paths, a hub row / hub column of degree L; hubs of degree 257 and 300 with exactly one cycle through two chosen positions of the hub's list) with every root; hubs of degree 4097, 65537, 65600 (thorough 131073) with one such cycle, judged in closed form and bounds around their girth; every 5x5 supergraph of a fixed 6-cycle / 8-cycle through node 0 (all settings of the first 17 (thorough: all) free entries). Reference: BFS distances; local girth = min over incident edges e of 1 + dist in G-e. Non-trivial = graph contains a cycle; forests and graphs with a cycle-free node attached to a cyclic component are counted separately.".into(),
            exhaustive: true,
            extra: serde_json::Map::new(),
            graph: None,
            assumptions: vec!["graphs beyond the listed scopes are not claimed".into()],
        },
    )
}
