//! C12 — the BER chain hands the decoder correctly ordered, correctly scaled
//! LLRs. E-enum over (H, modulation, puncturing pattern, interleaver, Eb/N0,
//! noise stream) configurations x all messages, with the engine's RNG owned
//! by the harness (scripted message bits, deterministic noise stream) and a
//! probing decoder injected through the public DecoderFactory parameter. The
//! oracle is an independent chain written here.

use crate::c14::{psk8_point, psk8_ref_llr};
use crate::common::*;
use crate::mats::Small;
use ldpc_toolbox::decoder::factory::DecoderFactory;
use ldpc_toolbox::decoder::{DecoderOutput, LdpcDecoder};
use ldpc_toolbox::simulation::factory::{Ber, BerTestBuilder, Modulation};
use ldpc_toolbox::sparse::SparseMatrix;
use num_complex::Complex;
use rand::RngCore;
use rand_distr::{Distribution, StandardNormal};
use serde_json::{json, Value};
use std::collections::VecDeque;
use std::sync::{Arc, Mutex};
use verif_shim::rand_shim::SplitMix;
use verif_shim::session::{with_session, Session};

/// Shared between the scripted RNG and the probing decoder (same worker thread).
struct Ctl {
    forced: VecDeque<bool>,
    messages: Vec<Vec<u8>>,
    frames_seen: usize,
    llrs: Vec<Vec<f64>>,
    k: usize,
}

struct ScriptRng {
    ctl: Arc<Mutex<Ctl>>,
    inner: SplitMix,
}

impl RngCore for ScriptRng {
    fn next_u32(&mut self) -> u32 {
        if let Some(b) = self.ctl.lock().unwrap().forced.pop_front() {
            return if b { 0x8000_0000 } else { 0 };
        }
        self.inner.next_u32()
    }
    fn next_u64(&mut self) -> u64 {
        self.inner.next_u64()
    }
    fn fill_bytes(&mut self, dst: &mut [u8]) {
        self.inner.fill_bytes(dst)
    }
}

thread_local! {
    /// Control block of the worker thread we are running on (set when the worker asks for its RNG).
    static MY_CTL: std::cell::RefCell<Option<Arc<Mutex<Ctl>>>> = const { std::cell::RefCell::new(None) };
}

/// All workers of one BER run.
struct Shared {
    workers: Mutex<Vec<(usize, Arc<Mutex<Ctl>>)>>,
    messages: Vec<Vec<u8>>,
    k: usize,
    seed: u64,
}

fn worker_seed(seed: u64, idx: usize) -> u64 {
    seed.wrapping_add(1000 * idx as u64)
}

struct ProbeDecoder {}

impl std::fmt::Debug for ProbeDecoder {
    fn fmt(&self, f: &mut std::fmt::Formatter<'_>) -> std::fmt::Result {
        write!(f, "ProbeDecoder")
    }
}

impl LdpcDecoder for ProbeDecoder {
    fn decode(&mut self, llrs: &[f64], _max: usize) -> Result<DecoderOutput, DecoderOutput> {
        let ctl = MY_CTL.with(|c| c.borrow().clone()).expect("probe decoder used on a thread that never asked for its RNG");
        let mut c = ctl.lock().unwrap();
        let j = c.frames_seen;
        c.frames_seen += 1;
        c.llrs.push(llrs.to_vec());
        let k = c.k;
        let total = c.messages.len();
        // script the message of the next frame
        let next: Vec<bool> = c.messages[(j + 1) % total].iter().map(|&b| b == 1).collect();
        c.forced.clear();
        c.forced.extend(next);
        // report the transmitted message (no error) except on the last scripted frame
        let mut word = vec![0u8; llrs.len()];
        if j < total {
            word[..k].copy_from_slice(&c.messages[j]);
        }
        if j + 1 >= total {
            word[0] ^= 1;
        }
        Ok(DecoderOutput { codeword: word, iterations: 1 })
    }
}

#[derive(Clone)]
struct ProbeFactory {}

impl std::fmt::Display for ProbeFactory {
    fn fmt(&self, f: &mut std::fmt::Formatter<'_>) -> std::fmt::Result {
        write!(f, "Probe")
    }
}

impl DecoderFactory for ProbeFactory {
    fn build_decoder(&self, _h: SparseMatrix) -> Box<dyn LdpcDecoder> {
        Box::new(ProbeDecoder {})
    }
}

#[derive(Clone, Debug)]
struct Config {
    hname: &'static str,
    psk8: bool,
    pattern: Option<Vec<bool>>,
    interleave: Option<isize>,
    ebn0: f32,
    seed: u64,
    workers: usize,
}

fn codes() -> Vec<(&'static str, Small)> {
    vec![
        ("stair3x5", Small::from_rows(5, &[&[0, 2], &[1, 2, 3], &[0, 1, 3, 4]])),
        ("general3x6", Small::from_rows(6, &[&[0, 1, 3, 5], &[1, 2, 4], &[0, 2, 4, 5]])),
        ("general3x9", Small::from_rows(9, &[&[0, 1, 2, 6, 8], &[2, 3, 4, 7], &[0, 4, 5, 7, 8]])),
        (
            "dense4x12",
            Small::from_rows(
                12,
                &[&[0, 1, 4, 5, 6, 7, 8, 10, 11], &[0, 2, 3, 4, 5, 7, 8, 9, 10], &[0, 1, 2, 3, 5, 6, 8, 9, 11], &[1, 2, 3, 4, 6, 7, 9, 10, 11]],
            ),
        ),
        ("wide6x60", wide6x60()),
    ]
}

/// 6 checks, 54 information bits: pseudo-random information part of row weight ~18, staircase tail.
fn wide6x60() -> Small {
    let (r, k) = (6usize, 54usize);
    let mut x = 0x0F1E_2D3C_4B5A_6978u64;
    let rows = (0..r)
        .map(|i| {
            let mut row = 0u64;
            for j in 0..k {
                x ^= x << 13;
                x ^= x >> 7;
                x ^= x << 17;
                if x % 3 == 0 {
                    row |= 1 << j;
                }
            }
            row |= 1 << (k + i);
            if i > 0 {
                row |= 1 << (k + i - 1);
            }
            row
        })
        .collect();
    Small { r, n: r + k, rows }
}

/// Systematic codeword by the harness's own GF(2) search over the parity bits.
fn ref_codeword(m: &Small, msg: &[u8]) -> Vec<u8> {
    let k = m.n - m.r;
    let base = msg.iter().enumerate().fold(0u64, |a, (i, &b)| a | ((b as u64) << i));
    let mut found = None;
    for p in 0..(1u64 << m.r) {
        let w = base | (p << k);
        if m.syndrome_ok(w) {
            if found.is_some() {
                machinery("C12: reference codeword not unique (singular tail)");
            }
            found = Some(w);
        }
    }
    let w = found.unwrap_or_else(|| machinery("C12: no systematic codeword"));
    (0..m.n).map(|j| ((w >> j) & 1) as u8).collect()
}

fn ref_puncture<T: Clone>(x: &[T], pat: &[bool]) -> Vec<T> {
    let b = x.len() / pat.len();
    let mut out = Vec::new();
    for (i, &keep) in pat.iter().enumerate() {
        if keep {
            out.extend_from_slice(&x[i * b..(i + 1) * b]);
        }
    }
    out
}

fn ref_interleave_perm(len: usize, cols: usize, backward: bool) -> Vec<usize> {
    let rows = len / cols;
    (0..len)
        .map(|o| {
            let (r, c) = (o / cols, o % cols);
            let cc = if backward { cols - 1 - c } else { c };
            cc * rows + r
        })
        .collect()
}

fn messages_for(m: &Small, thorough: bool) -> Vec<Vec<u8>> {
    let k = m.n - m.r;
    if k > 16 {
        // long codes: zero, all ones, every single one, every pair of neighbours, two fixed patterns
        let mut v: Vec<Vec<u8>> = vec![vec![0; k], vec![1; k]];
        for i in 0..k {
            let mut a = vec![0u8; k];
            a[i] = 1;
            v.push(a.clone());
            a[(i + 1) % k] = 1;
            v.push(a);
        }
        v.push((0..k).map(|i| (i % 2) as u8).collect());
        v.push((0..k).map(|i| u8::from(i % 3 == 0)).collect());
        return v;
    }
    let all: Vec<Vec<u8>> = (0..(1u64 << k)).map(|x| (0..k).map(|i| ((x >> i) & 1) as u8).collect()).collect();
    if k <= 6 || thorough {
        all
    } else {
        all.into_iter().filter(|v| v.iter().filter(|&&b| b == 1).count() <= 2 || v.iter().all(|&b| b == 1)).collect()
    }
}

fn run_config(cfg: &Config, thorough: bool, acc: &mut Acc) {
    let (_, m) = codes().into_iter().find(|(n, _)| *n == cfg.hname).unwrap();
    let k = m.n - m.r;
    let n_cw = m.n;
    let messages = messages_for(&m, thorough);
    let key = format!("chain:{}{}:{}:{:?}:{:?}:{}:s{}", cfg.hname, if cfg.workers > 1 { format!(":W{}", cfg.workers) } else { String::new() }, if cfg.psk8 { "8PSK" } else { "BPSK" }, cfg.pattern.as_ref().map(|p| p.iter().map(|&b| if b { '1' } else { '0' }).collect::<String>()), cfg.interleave, cfg.ebn0, cfg.seed);
    let replay = json!({"kind": "config", "h": cfg.hname, "psk8": cfg.psk8, "pattern": cfg.pattern, "interleave": cfg.interleave, "ebn0": cfg.ebn0, "seed": cfg.seed, "workers": cfg.workers});
    acc.evals += 1;
    let shared = Arc::new(Shared { workers: Mutex::new(Vec::new()), messages: messages.clone(), k, seed: cfg.seed });
    let sh = shared.clone();
    let session = Arc::new(Session::new(
        Some(cfg.workers),
        Some(Arc::new(move |idx: usize| {
            // called on the worker thread: create this worker's control block and remember it there
            let ctl = Arc::new(Mutex::new(Ctl { forced: sh.messages[0].iter().map(|&b| b == 1).collect(), messages: sh.messages.clone(), frames_seen: 0, llrs: Vec::new(), k: sh.k }));
            sh.workers.lock().unwrap().push((idx, ctl.clone()));
            MY_CTL.with(|c| *c.borrow_mut() = Some(ctl.clone()));
            Box::new(ScriptRng { ctl, inner: SplitMix(worker_seed(sh.seed, idx)) }) as Box<dyn RngCore + Send>
        })),
        true,
    ));
    let factory = ProbeFactory {};
    let ebn0s = [cfg.ebn0];
    let pattern = cfg.pattern.clone();
    let (interleave, psk8) = (cfg.interleave, cfg.psk8);
    let h = m.sparse();
    let outcome = guard(move || {
        with_session(session, move || {
            let test = BerTestBuilder {
                h,
                decoder_implementation: factory,
                modulation: if psk8 { Modulation::Psk8 } else { Modulation::Bpsk },
                puncturing_pattern: pattern.as_deref(),
                interleaving_columns: interleave,
                max_frame_errors: 1,
                max_iterations: 5,
                ebn0s_db: &ebn0s,
                reporter: None,
                bch_max_errors: 0,
            }
            .build()
            .map_err(|e| e.to_string())?;
            let dims = (test.n(), test.n_cw(), test.k(), test.rate());
            let stats = test.run().map_err(|e| e.to_string())?;
            Ok::<_, String>((dims, stats))
        })
    });
    let ((n_rep, ncw_rep, k_rep, rate_rep), stats) = match outcome {
        Err(e) => {
            acc.violate(key, format!("BER run panicked: {}", e), replay);
            return;
        }
        Ok(Err(e)) => {
            acc.violate(key, format!("BER run failed: {}", e), replay);
            return;
        }
        Ok(Ok(x)) => x,
    };
    // reported sizes
    let trues = cfg.pattern.as_ref().map(|p| p.iter().filter(|&&b| b).count());
    let n_tx = match (&cfg.pattern, trues) {
        (Some(p), Some(t)) => n_cw / p.len() * t,
        _ => n_cw,
    };
    let rate = k as f64 / n_tx as f64;
    if n_rep != n_tx || ncw_rep != n_cw || k_rep != k || (rate_rep - rate).abs() > 1e-15 {
        acc.violate(key, format!("reported (frame size, codeword size, k, rate) = ({}, {}, {}, {}) but transmitted frame has {} bits, codeword {}, k {}, rate {}", n_rep, ncw_rep, k_rep, rate_rep, n_tx, n_cw, k, rate), replay);
        return;
    }
    if stats.len() != 1 || (cfg.workers == 1 && stats[0].num_frames != messages.len() as u64) {
        acc.violate(key, format!("run consumed {:?} frames, {} were scripted", stats.first().map(|s| s.num_frames), messages.len()), replay);
        return;
    }
    // the independent chain
    let bps = if cfg.psk8 { 3.0 } else { 1.0 };
    let sigma = (1.0 / (2.0 * rate * bps * 10f64.powf(0.1 * cfg.ebn0 as f64))).sqrt();
    let workers: Vec<(usize, Arc<Mutex<Ctl>>)> = shared.workers.lock().unwrap().clone();
    if workers.len() != cfg.workers {
        acc.violate(key, format!("{} workers asked for an RNG, {} configured", workers.len(), cfg.workers), replay);
        return;
    }
    let mut max_rel = 0.0f64;
    let mut frames_total = 0usize;
    let mut first_observed: Vec<f64> = Vec::new();
    for (widx, wctl) in &workers {
    let mut stream = ScriptRng {
        ctl: Arc::new(Mutex::new(Ctl { forced: VecDeque::new(), messages: vec![], frames_seen: 0, llrs: vec![], k })),
        inner: SplitMix(worker_seed(cfg.seed, *widx)),
    };
    let observed = wctl.lock().unwrap().llrs.clone();
    if cfg.workers == 1 && observed.len() < messages.len() {
        acc.violate(key, format!("decoder saw {} frames, {} scripted", observed.len(), messages.len()), replay);
        return;
    }
    if first_observed.is_empty() && observed.len() > 1 {
        first_observed = observed[1].clone();
    }
    for (j, msg) in messages.iter().enumerate().take(observed.len()) {
        frames_total += 1;
        let cw = ref_codeword(&m, msg);
        let tx: Vec<u8> = match &cfg.pattern {
            Some(p) => ref_puncture(&cw, p),
            None => cw.clone(),
        };
        let perm: Option<Vec<usize>> = cfg.interleave.map(|c| ref_interleave_perm(tx.len(), c.unsigned_abs(), c < 0));
        let sent: Vec<u8> = match &perm {
            Some(p) => p.iter().map(|&i| tx[i]).collect(),
            None => tx.clone(),
        };
        // message bits consumed one u32 each by the engine; the reference stream skips nothing
        // (forced words never touch the SplitMix state), then draws the noise in order
        let mut llr_rx: Vec<f64> = Vec::with_capacity(sent.len());
        if cfg.psk8 {
            for t in sent.chunks(3) {
                let s = psk8_point((t[0], t[1], t[2]));
                let zr: f64 = StandardNormal.sample(&mut stream);
                let zi: f64 = StandardNormal.sample(&mut stream);
                let y = Complex::new(s.re + sigma * zr, s.im + sigma * zi);
                llr_rx.extend(psk8_ref_llr(y, sigma));
            }
        } else {
            for &b in &sent {
                let s = if b == 1 { 1.0 } else { -1.0 };
                let z: f64 = StandardNormal.sample(&mut stream);
                let y = s + sigma * z;
                llr_rx.push(-2.0 * y / (sigma * sigma));
            }
        }
        let deint: Vec<f64> = match &perm {
            Some(p) => {
                let mut d = vec![0.0; llr_rx.len()];
                for (o, &i) in p.iter().enumerate() {
                    d[i] = llr_rx[o];
                }
                d
            }
            None => llr_rx,
        };
        let mut want = vec![0.0f64; n_cw];
        let mut punctured = vec![false; n_cw];
        match &cfg.pattern {
            Some(p) => {
                let b = n_cw / p.len();
                let mut jj = 0;
                for (i, &keep) in p.iter().enumerate() {
                    for t in 0..b {
                        if keep {
                            want[i * b + t] = deint[jj * b + t];
                        } else {
                            punctured[i * b + t] = true;
                        }
                    }
                    if keep {
                        jj += 1;
                    }
                }
            }
            None => want.copy_from_slice(&deint),
        }
        let got = &observed[j];
        if got.len() != n_cw {
            acc.violate(key, format!("frame {}: decoder input has length {}, codeword length is {}", j, got.len(), n_cw), replay);
            return;
        }
        for i in 0..n_cw {
            if punctured[i] {
                if got[i].to_bits() != 0.0f64.to_bits() {
                    acc.violate(key, format!("frame {}: punctured position {} has LLR {:?}, must be exactly 0", j, i, got[i]), replay);
                    return;
                }
            } else {
                let tol = 1e-9 * want[i].abs() + 1e-9 / (sigma * sigma).max(1e-12) * 1e-3 + 1e-12;
                let err = (got[i] - want[i]).abs();
                if !(err <= tol) {
                    acc.violate(key, format!("frame {} (message {:?}): LLR at codeword position {} is {:e}, the reference chain gives {:e}", j, msg, i, got[i], want[i]), replay);
                    return;
                }
                if want[i] != 0.0 {
                    max_rel = max_rel.max(err / want[i].abs());
                }
            }
        }
        // noise aside, the signs are the systematic codeword of the message
        if cfg.ebn0 >= 50.0 {
            for i in 0..n_cw {
                if !punctured[i] && u8::from(got[i] <= 0.0) != cw[i] {
                    acc.violate(key, format!("frame {}: sign at position {} does not carry codeword bit {}", j, i, cw[i]), replay);
                    return;
                }
            }
            if !m.syndrome_ok(cw.iter().enumerate().fold(0u64, |a, (i, &b)| a | ((b as u64) << i))) || cw[..k] != msg[..] {
                machinery("C12: reference codeword is not a systematic codeword");
            }
        }
    }
    }
    acc.nontrivial += 1;
    acc.add("frames_checked", frames_total as u64);
    if cfg.workers > 1 {
        acc.add("multi_worker_runs", 1);
    }
    acc.outcome(&(cfg.hname, cfg.psk8, cfg.pattern.clone(), cfg.interleave));
    if acc.evals % 97 == 5 {
        let first = first_observed.clone();
        acc.sample(|| json!({"config": format!("{:?}", cfg), "sigma": sigma, "n_tx": n_tx, "frame1_decoder_input": first, "max_relative_error": max_rel}));
    }
}

fn configs(thorough: bool) -> Vec<Config> {
    let mut v = Vec::new();
    let pmax = 9;
    for (hname, m) in codes() {
        if hname == "dense4x12" && !thorough {
            // quick: a reduced menu for the largest code
        }
        let n = m.n;
        if hname == "wide6x60" {
            // the long code with a reduced menu: 4 patterns x both modulations x every interleaver
            // width dividing the transmitted length, one Eb/N0, one seed
            for pat in [None, Some(vec![true, false, true]), Some(vec![true, true, true, true, false]), Some(vec![false, true])] {
                let n_tx = match &pat {
                    Some(p) => n / p.len() * p.iter().filter(|&&b| b).count(),
                    None => n,
                };
                for psk8 in [false, true] {
                    if psk8 && n_tx % 3 != 0 {
                        continue;
                    }
                    let mut inters: Vec<Option<isize>> = vec![None];
                    for c in 1..=n_tx {
                        if n_tx % c == 0 && (thorough || c % 2 == 0 || c == 1 || c == n_tx) {
                            inters.push(Some(c as isize));
                            inters.push(Some(-(c as isize)));
                        }
                    }
                    for inter in inters {
                        v.push(Config { hname, psk8, pattern: pat.clone(), interleave: inter, ebn0: 2.5, seed: 11, workers: 1 });
                        if pat.is_none() && inter.is_none() {
                            v.push(Config { hname, psk8, pattern: None, interleave: None, ebn0: 9.0, seed: 7777, workers: 3 });
                        }
                    }
                }
            }
            continue;
        }
        let mut patterns: Vec<Option<Vec<bool>>> = vec![None];
        for p in 1..=pmax {
            if n % p != 0 {
                continue;
            }
            for bits in 1u32..(1 << p) {
                patterns.push(Some((0..p).map(|i| (bits >> i) & 1 == 1).collect()));
            }
        }
        for pat in patterns {
            let n_tx = match &pat {
                Some(p) => n / p.len() * p.iter().filter(|&&b| b).count(),
                None => n,
            };
            for psk8 in [false, true] {
                if psk8 && n_tx % 3 != 0 {
                    continue;
                }
                let mut inters: Vec<Option<isize>> = vec![None];
                for c in 1..=n_tx {
                    if n_tx % c == 0 {
                        inters.push(Some(c as isize));
                        inters.push(Some(-(c as isize)));
                    }
                }
                for inter in inters {
                    let ebn0s: Vec<f32> = vec![-3.0, 2.5, 9.0, 60.0];
                    for ebn0 in ebn0s {
                        let seeds: Vec<u64> = if thorough { vec![11, 7777, 123456789, 5] } else { vec![11, 7777] };
                        for seed in seeds {
                            v.push(Config { hname, psk8, pattern: pat.clone(), interleave: inter, ebn0, seed, workers: 1 });
                            // every frame of every worker: the same configuration with three workers
                            if seed == 11 && (thorough || ebn0 == 2.5) && pat.as_ref().map_or(true, |p| p.len() <= if thorough { 6 } else { 3 }) {
                                v.push(Config { hname, psk8, pattern: pat.clone(), interleave: inter, ebn0, seed, workers: 3 });
                            }
                        }
                    }
                }
            }
        }
    }
    v
}

/// The scripted RNG must produce exactly the intended message through the library's own sampling call.
fn selfcheck_rng() {
    use rand::distr::StandardUniform;
    use rand::Rng;
    let msg = [1u8, 0, 0, 1, 1, 0, 1];
    let ctl = Arc::new(Mutex::new(Ctl { forced: msg.iter().map(|&b| b == 1).collect(), messages: vec![], frames_seen: 0, llrs: vec![], k: msg.len() }));
    let mut r = ScriptRng { ctl, inner: SplitMix(1) };
    let got: Vec<u8> = (&mut r).sample_iter(StandardUniform).map(<u8 as From<bool>>::from).take(msg.len()).collect();
    if got != msg {
        machinery("C12: scripted RNG does not reproduce the intended message through sample_iter(StandardUniform)");
    }
}

pub fn run(run: &Run) -> i32 {
    selfcheck_rng();
    let mut acc = Acc::new();
    let mut extra = serde_json::Map::new();
    if let Some(p) = &run.replay {
        let v: Value = serde_json::from_str(&std::fs::read_to_string(p).unwrap_or_else(|_| machinery("cannot read replay"))).unwrap_or_else(|_| machinery("bad replay json"));
        let e = &v["element"];
        let hname = codes().into_iter().map(|(n, _)| n).find(|n| Some(*n) == e["h"].as_str()).unwrap_or_else(|| machinery("unknown code"));
        let cfg = Config {
            hname,
            psk8: e["psk8"].as_bool().unwrap(),
            pattern: e["pattern"].as_array().map(|a| a.iter().map(|x| x.as_bool().unwrap()).collect()),
            interleave: e["interleave"].as_i64().map(|x| x as isize),
            ebn0: e["ebn0"].as_f64().unwrap() as f32,
            seed: e["seed"].as_u64().unwrap(),
            workers: e["workers"].as_u64().unwrap_or(1) as usize,
        };
        run_config(&cfg, true, &mut acc);
    } else {
        let cfgs = configs(run.thorough());
        extra.insert("configurations".into(), json!(cfgs.len()));
        let t = run.thorough();
        acc = par_items(&cfgs, |c, a| run_config(c, t, a));
    }
    finish(
        run,
        acc,
        Coverage {
            rule: "a 6x60 code (54 information bits; 4 patterns, every interleaver width, both modulations, messages: zero, ones, singles, neighbour pairs, two patterns) and codes {3x5 staircase, 3x6 and 3x9 general, 4x12 dense} x {BPSK, 8PSK where 3 | frame size} x {no puncturing, EVERY boolean pattern of length p | n, p <= 9, >= 1 true (includes the smallest case where n / rate is not exact in binary: n = 9, 9 blocks keeping 7)} x {no interleaver, +-c for EVERY c | frame size} x Eb/N0 in {-3, 2.5, 9, 60} dB x 2 (thorough 4) noise streams; each run feeds ALL 2^k messages (dense 4x12 in quick: weight <= 2 and all-ones) through the real BerTest built by BerTestBuilder with 1 worker (and again with 3 workers for one Eb/N0 and stream: every frame of every worker is compared with that worker's own reference stream), a harness-owned RNG (message bits forced through the engine's own sampling call, deterministic noise stream) and a probing decoder that records every LLR vector. Oracle: independent chain (own GF(2) systematic codeword, block puncturing, column-write/row-read permutation, literal constellation table, sigma from the after-puncturing rate and bits/symbol, sigma * standard-normal draws taken in order from a clone of the stream, closed-form posterior LLR, inverse permutation, zero-filled depuncturing): length, exact 0.0 at punctured positions, values within 1e-9 relative, codeword signs at 60 dB, reported n / n_cw / k / rate. Every configuration is distinct; non-trivial = run completed and compared.".into(),
            exhaustive: true,
            extra,
            graph: None,
            assumptions: vec![
                "that the draws are Gaussian is delegated to rand_distr::StandardNormal (trusted base); the check decides that the engine adds sigma_expected * one fresh standard-normal draw per real dimension, in symbol order, real part before imaginary part (stream positions stay in lock-step across frames)".into(),
                "worker counts 1 and 3; which worker ends the run is schedule dependent (real threads), the oracle judges whatever frames each worker processed".into(),
            ],
        },
    )
}
