//! C13 — BER statistics are exact and the run terminates under every thread
//! schedule. E-sched: the real `BerTest::run` (collector + W workers +
//! channels + joins) is executed under the controlled scheduler of
//! verif_shim; all schedules up to a preemption bound are enumerated by DFS
//! (iterative context bounding: 0, 1, 2, ... preemptions), and every complete
//! execution is judged against a fold over the arrival order the scheduler
//! itself observed.

use crate::common::*;
use ldpc_toolbox::decoder::factory::DecoderFactory;
use ldpc_toolbox::decoder::{DecoderOutput, LdpcDecoder};
use ldpc_toolbox::simulation::ber::{BerTest, Report, Reporter, Statistics};
use ldpc_toolbox::simulation::modulation::{Bpsk, Psk8};
use ldpc_toolbox::sparse::SparseMatrix;
use serde_json::{json, Value};
use std::collections::HashSet;
use std::sync::atomic::{AtomicUsize, Ordering};
use std::sync::{Arc, Mutex};
use std::time::Duration;
use verif_shim::sched::{run_controlled, Abort, Decision, Event, ExecResult, Outcome};
use verif_shim::session::Session;
use verif_shim::std_shim::sync::mpsc::channel;


/// Preemption bound meaning "no bound": every schedule is explored.
const UNBOUNDED: usize = 99;

impl Scenario {
    fn k(&self) -> usize {
        if self.bigk {
            300
        } else {
            2
        }
    }
    fn h(&self) -> SparseMatrix {
        if !self.bigk {
            return h35();
        }
        // 3 x 303 staircase code: information column j on check j % 3
        let mut h = SparseMatrix::new(3, 303);
        for j in 0..300 {
            h.insert(j % 3, j);
        }
        for i in 0..3 {
            h.insert(i, 300 + i);
            if i > 0 {
                h.insert(i, 300 + i - 1);
            }
        }
        h
    }
}

fn h35() -> SparseMatrix {
    // 3 x 5 staircase code (k = 2)
    let mut h = SparseMatrix::new(3, 5);
    for (r, c) in [(0, 0), (0, 2), (1, 1), (1, 2), (1, 3), (2, 0), (2, 1), (2, 3), (2, 4)] {
        h.insert(r, c);
    }
    h
}

#[derive(Clone, Copy, Debug, PartialEq)]
struct Frame {
    iterations: usize,
    success: bool,
    flips: usize,
    panic: bool,
}

#[derive(Clone, Copy, Debug, PartialEq, Eq)]
enum Inject {
    None,
    /// puncturing pattern whose length does not divide n: the stage returns Err
    StageErr,
    /// interleaver columns not dividing n: the stage panics in every worker
    InterleaverPanic,
    /// 8PSK with 3 not dividing n: the modulator panics in every worker
    Psk8Panic,
    /// the decoder of worker 0 panics on its second frame
    DecoderPanic,
}

#[derive(Clone, Debug)]
struct Scenario {
    id: String,
    workers: usize,
    errors: u64,
    bch: u64,
    interval_zero: bool,
    rounds: usize,
    script: usize,
    budget: usize,
    inject: Inject,
    /// endpoint drops are scheduling points of their own (validation of the default granularity)
    drop_points: bool,
    /// a 3 x 303 code (k = 300) instead of the 3 x 5 one: frames can carry more than 255 bit errors
    bigk: bool,
}

impl Scenario {
    fn frame(&self, round: usize, w: usize, f: usize) -> Frame {
        let ok = |it: usize| Frame { iterations: it, success: true, flips: 0, panic: false };
        let e1 = Frame { iterations: 7, success: false, flips: 1, panic: false };
        let e2 = Frame { iterations: 9, success: false, flips: 2, panic: false };
        let fd = Frame { iterations: 3, success: true, flips: 1, panic: false }; // false decode
        let fd2 = Frame { iterations: 4, success: true, flips: 2, panic: false }; // false decode, 2 bit errors
        let seq: Vec<Frame> = match self.script {
            0 => vec![ok(1 + w), e1, e2],
            1 => vec![e1, ok(2 + w), fd2],
            2 => vec![fd, e2, ok(4)],
            3 => vec![e2, ok(1), ok(2 + w), e1],
            // script 5 (3 x 303 code): frames with 256, 0, 257 (false decode) and 255 bit errors
            5 => vec![
                Frame { iterations: 8, success: false, flips: 256, panic: false },
                ok(1 + w),
                Frame { iterations: 5, success: true, flips: 257, panic: false },
                Frame { iterations: 6, success: false, flips: 255, panic: false },
            ],
            // script 4: only worker 0 ever produces frame errors; the others decode correctly for ever
            _ => {
                if w == 0 {
                    vec![e2, fd2]
                } else {
                    vec![ok(1 + w)]
                }
            }
        };
        let mut fr = seq[(f + w + round) % seq.len()];
        if self.inject == Inject::DecoderPanic && w == 0 && f == 1 {
            fr.panic = true;
        }
        fr
    }
}

struct ScriptDecoder {
    scn: Arc<Scenario>,
    round: usize,
    worker: usize,
    frame: usize,
}

impl std::fmt::Debug for ScriptDecoder {
    fn fmt(&self, f: &mut std::fmt::Formatter<'_>) -> std::fmt::Result {
        write!(f, "ScriptDecoder(r{} w{} f{})", self.round, self.worker, self.frame)
    }
}

impl LdpcDecoder for ScriptDecoder {
    fn decode(&mut self, llrs: &[f64], _max_iterations: usize) -> Result<DecoderOutput, DecoderOutput> {
        let f = self.frame;
        self.frame += 1;
        if f >= self.scn.budget {
            // frame budget reached: run again only when nothing else can
            verif_shim::sched::low_yield();
        }
        let fr = self.scn.frame(self.round, self.worker, f);
        if fr.panic {
            panic!("scripted decoder panic");
        }
        let mut word: Vec<u8> = llrs.iter().map(|&x| u8::from(x <= 0.0)).collect();
        for b in word.iter_mut().take(fr.flips) {
            *b ^= 1;
        }
        let out = DecoderOutput { codeword: word, iterations: fr.iterations };
        if fr.success {
            Ok(out)
        } else {
            Err(out)
        }
    }
}

#[derive(Clone)]
struct ScriptFactory {
    scn: Arc<Scenario>,
    built: Arc<AtomicUsize>,
}

impl std::fmt::Display for ScriptFactory {
    fn fmt(&self, f: &mut std::fmt::Formatter<'_>) -> std::fmt::Result {
        write!(f, "Script")
    }
}

impl DecoderFactory for ScriptFactory {
    fn build_decoder(&self, _h: SparseMatrix) -> Box<dyn LdpcDecoder> {
        let i = self.built.fetch_add(1, Ordering::SeqCst);
        Box::new(ScriptDecoder {
            scn: self.scn.clone(),
            round: i / self.scn.workers,
            worker: i % self.scn.workers,
            frame: 0,
        })
    }
}

/// What one execution produced, in plain data.
struct Observed {
    ret: Result<Result<Vec<Statistics>, String>, String>, // outer Err = run() panicked
    reports: Vec<Report>,
}

fn run_once(scn: &Arc<Scenario>, prefix: &[usize]) -> ExecResult<Observed> {
    let mut sess = Session::new(Some(scn.workers), None, true);
    sess.drop_points = scn.drop_points;
    let session = Arc::new(sess);
    let scn2 = scn.clone();
    // step horizon: generous for the ordinary scenarios, scaled for the long-run ones
    let horizon = 4000 + 6 * scn.workers * scn.budget * scn.rounds;
    run_controlled(session, prefix, horizon, move || {
        let (tx, rx) = channel::<Report>();
        let reporter = Reporter {
            tx,
            interval: if scn2.interval_zero { Duration::from_millis(0) } else { Duration::from_secs(3600) },
        };
        let factory = ScriptFactory { scn: scn2.clone(), built: Arc::new(AtomicUsize::new(0)) };
        let ebn0s: Vec<f32> = (0..scn2.rounds).map(|i| 60.0 + i as f32).collect();
        let punct: Option<Vec<bool>> = if scn2.inject == Inject::StageErr { Some(vec![true, false]) } else { None };
        let inter: Option<isize> = if scn2.inject == Inject::InterleaverPanic { Some(2) } else { None };
        let ret = std::panic::catch_unwind(std::panic::AssertUnwindSafe(|| {
            if scn2.inject == Inject::Psk8Panic {
                BerTest::<Psk8, ScriptFactory>::new(scn2.h(), factory, punct.as_deref(), inter, scn2.errors, 10, &ebn0s, Some(reporter), scn2.bch)
                    .map_err(|e| e.to_string())
                    .and_then(|t| t.run().map_err(|e| e.to_string()))
            } else {
                BerTest::<Bpsk, ScriptFactory>::new(scn2.h(), factory, punct.as_deref(), inter, scn2.errors, 10, &ebn0s, Some(reporter), scn2.bch)
                    .map_err(|e| e.to_string())
                    .and_then(|t| t.run().map_err(|e| e.to_string()))
            }
        }));
        let ret = match ret {
            Ok(r) => Ok(r),
            Err(p) => {
                if verif_shim::sched::is_abort_payload(p.as_ref()) {
                    std::panic::resume_unwind(p);
                }
                Err(payload_str(p.as_ref()))
            }
        };
        let reports = rx.drain_now();
        Observed { ret, reports }
    })
}

#[derive(Clone, Debug, PartialEq)]
struct Fold {
    n: u64,
    bit_errors: u64,
    frame_errors: u64,
    false_decodes: u64,
    total_iterations: u64,
    correct_iterations: u64,
    bch_bit_errors: u64,
    bch_frame_errors: u64,
    bch_correct_iterations: u64,
}

impl Fold {
    fn new() -> Fold {
        Fold { n: 0, bit_errors: 0, frame_errors: 0, false_decodes: 0, total_iterations: 0, correct_iterations: 0, bch_bit_errors: 0, bch_frame_errors: 0, bch_correct_iterations: 0 }
    }
    fn add(&mut self, fr: &Frame, bch: u64) {
        self.n += 1;
        self.bit_errors += fr.flips as u64;
        if fr.flips > 0 {
            self.frame_errors += 1;
            if fr.success {
                self.false_decodes += 1;
            }
        } else {
            self.correct_iterations += fr.iterations as u64;
        }
        self.total_iterations += fr.iterations as u64;
        if bch > 0 {
            if fr.flips as u64 > bch {
                self.bch_bit_errors += fr.flips as u64;
                self.bch_frame_errors += 1;
            } else {
                self.bch_correct_iterations += fr.iterations as u64;
            }
        }
    }
    fn stop_count(&self, bch: u64) -> u64 {
        if bch > 0 {
            self.bch_frame_errors
        } else {
            self.frame_errors
        }
    }
}

fn feq(a: f64, b: f64) -> bool {
    (a.is_nan() && b.is_nan()) || a.to_bits() == b.to_bits()
}

#[allow(non_snake_case)]
fn stats_match(s: &Statistics, f: &Fold, bch: u64, ebn0: f32, K: usize) -> Result<(), String> {
    let n = f.n as f64;
    if s.ebn0_db != ebn0 {
        return Err(format!("Eb/N0 {} reported for the point {}", s.ebn0_db, ebn0));
    }
    if s.num_frames != f.n {
        return Err(format!("num_frames {} but {} whole frames were consumed", s.num_frames, f.n));
    }
    if s.ldpc.bit_errors != f.bit_errors || s.ldpc.frame_errors != f.frame_errors || s.false_decodes != f.false_decodes || s.total_iterations != f.total_iterations || s.ldpc.correct_iterations != f.correct_iterations {
        return Err(format!(
            "counts (bit {}, frame {}, false {}, iter {}, correct iter {}) differ from the frames consumed (bit {}, frame {}, false {}, iter {}, correct iter {})",
            s.ldpc.bit_errors, s.ldpc.frame_errors, s.false_decodes, s.total_iterations, s.ldpc.correct_iterations, f.bit_errors, f.frame_errors, f.false_decodes, f.total_iterations, f.correct_iterations
        ));
    }
    if !feq(s.ldpc.ber, f.bit_errors as f64 / (K as f64 * n)) || !feq(s.ldpc.fer, f.frame_errors as f64 / n) || !feq(s.average_iterations, f.total_iterations as f64 / n) || !feq(s.ldpc.average_iterations_correct, f.correct_iterations as f64 / (f.n - f.frame_errors) as f64) {
        return Err(format!("ratios (ber {}, fer {}, avg it {}, avg correct it {}) are not the stated quotients of the counts", s.ldpc.ber, s.ldpc.fer, s.average_iterations, s.ldpc.average_iterations_correct));
    }
    match (&s.bch, bch > 0) {
        (None, false) => {}
        (Some(b), true) => {
            if b.bit_errors != f.bch_bit_errors || b.frame_errors != f.bch_frame_errors || b.correct_iterations != f.bch_correct_iterations {
                return Err(format!("outer-code counts (bit {}, frame {}, correct it {}) differ from threshold accounting (bit {}, frame {}, correct it {})", b.bit_errors, b.frame_errors, b.correct_iterations, f.bch_bit_errors, f.bch_frame_errors, f.bch_correct_iterations));
            }
            if !feq(b.ber, f.bch_bit_errors as f64 / (K as f64 * n)) || !feq(b.fer, f.bch_frame_errors as f64 / n) || !feq(b.average_iterations_correct, f.bch_correct_iterations as f64 / (f.n - f.bch_frame_errors) as f64) {
                return Err("outer-code ratios are not the stated quotients".into());
            }
        }
        _ => return Err("outer-code statistics present/absent contrary to the configuration".into()),
    }
    Ok(())
}

/// Equality of two statistics records ignoring elapsed time / throughput, with NaN == NaN.
fn same_stats(a: &Statistics, b: &Statistics) -> bool {
    let code = |x: &ldpc_toolbox::simulation::ber::CodeStatistics, y: &ldpc_toolbox::simulation::ber::CodeStatistics| {
        x.bit_errors == y.bit_errors && x.frame_errors == y.frame_errors && x.correct_iterations == y.correct_iterations && feq(x.ber, y.ber) && feq(x.fer, y.fer) && feq(x.average_iterations_correct, y.average_iterations_correct)
    };
    a.ebn0_db == b.ebn0_db
        && a.num_frames == b.num_frames
        && a.total_iterations == b.total_iterations
        && a.false_decodes == b.false_decodes
        && feq(a.average_iterations, b.average_iterations)
        && code(&a.ldpc, &b.ldpc)
        && match (&a.bch, &b.bch) {
            (None, None) => true,
            (Some(x), Some(y)) => code(x, y),
            _ => false,
        }
}

struct Judged {
    arrival: Vec<(usize, usize, usize)>, // (round, worker, frame)
    outcome_tag: String,
}

fn judge(scn: &Scenario, res: &ExecResult<Observed>) -> Result<Judged, String> {
    // (i) the execution ends
    let obs = match &res.outcome {
        Outcome::Aborted(Abort::Deadlock(b)) => return Err(format!("deadlock: no thread can run, blocked = {:?}", b)),
        Outcome::Aborted(Abort::Horizon) => return Err("no termination within the step horizon".into()),
        Outcome::Aborted(a) => machinery(&format!("C13: execution aborted by the harness: {:?}", a)),
        Outcome::Done(Err(p)) => machinery(&format!("C13: harness body panicked: {}", payload_str(p.as_ref()))),
        Outcome::Done(Ok(o)) => o,
    };
    // (ii) every spawned thread has finished when run() returns
    if !res.unfinished_at_return.is_empty() {
        return Err(format!("run() returned while threads {:?} were still alive (workers not joined)", res.unfinished_at_return));
    }
    // reconstruct the arrival order from the scheduler's log
    // arrival order = order of the successful sends performed by worker threads (the only thing
    // a worker ever sends is a frame result); the Eb/N0 point of a result is that of the worker
    // that sent it (workers are spawned point by point). No assumption is made about which
    // channel, or which kind of channel, carries the results.
    let spawned: Vec<usize> = res.log.iter().filter_map(|e| if let Event::Spawn { child, .. } = e { Some(*child) } else { None }).collect();
    let mut sent: std::collections::HashMap<usize, usize> = std::collections::HashMap::new();
    let mut arrival: Vec<(usize, usize, usize)> = Vec::new();
    for e in &res.log {
        if let Event::Send { tid, ok: true, .. } = e {
            if *tid == 0 {
                continue;
            }
            let pos = spawned.iter().position(|t| t == tid).ok_or("send by an unknown thread")?;
            let (round, w) = (pos / scn.workers, pos % scn.workers);
            let f = sent.entry(*tid).or_insert(0);
            arrival.push((round, w, *f));
            *f += 1;
        }
    }
    // (v) report stream: Finished exactly once and last
    let fin = obs.reports.iter().filter(|r| matches!(r, Report::Finished)).count();
    if fin != 1 || !matches!(obs.reports.last(), Some(Report::Finished)) {
        return Err(format!("report stream has {} 'finished' reports and ends with {:?}", fin, obs.reports.last().map(|r| matches!(r, Report::Finished))));
    }
    let stats_reports: Vec<&Statistics> = obs.reports.iter().filter_map(|r| if let Report::Statistics(s) = r { Some(s) } else { None }).collect();
    match (&obs.ret, scn.inject) {
        (Err(p), Inject::DecoderPanic) => Ok(Judged { arrival, outcome_tag: format!("panic:{}", p) }),
        (Err(p), _) => Err(format!("run() panicked: {}", p)),
        (Ok(Err(e)), Inject::None) => Err(format!("run() returned the error {:?} in a configuration where every frame can be processed", e)),
        (Ok(Err(e)), _) => Ok(Judged { arrival, outcome_tag: format!("err:{}", e) }),
        (Ok(Ok(_)), Inject::StageErr) | (Ok(Ok(_)), Inject::InterleaverPanic) | (Ok(Ok(_)), Inject::Psk8Panic) => Err("run() returned Ok although no frame can be processed".into()),
        (Ok(Ok(stats)), _) => {
            // (iv) exactness against the fold over the arrival order
            if stats.len() != scn.rounds {
                return Err(format!("{} statistics entries for {} Eb/N0 points", stats.len(), scn.rounds));
            }
            let mut rep_idx = 0usize;
            for round in 0..scn.rounds {
                let ebn0 = 60.0 + round as f32;
                let mut f = Fold::new();
                let mut prefix_folds = Vec::new();
                for &(r, w, fr) in arrival.iter().filter(|a| a.0 == round) {
                    if f.stop_count(scn.bch) >= scn.errors {
                        break;
                    }
                    f.add(&scn.frame(r, w, fr), scn.bch);
                    prefix_folds.push(f.clone());
                }
                if f.stop_count(scn.bch) < scn.errors {
                    return Err(format!("round {}: run() returned Ok after only {} of the {} required frame errors were available", round, f.stop_count(scn.bch), scn.errors));
                }
                stats_match(&stats[round], &f, scn.bch, ebn0, scn.k()).map_err(|e| format!("Eb/N0 point {}: {}", round, e))?;
                // reports of this round
                let mine: Vec<&&Statistics> = stats_reports.iter().skip(rep_idx).take_while(|s| s.ebn0_db == ebn0).collect();
                rep_idx += mine.len();
                let last = mine.last().ok_or(format!("no statistics report for Eb/N0 point {}", round))?;
                if !same_stats(last, &stats[round]) {
                    return Err(format!("last statistics report of point {} differs from the returned entry", round));
                }
                if scn.interval_zero {
                    // a report after every consumed result, then the final one
                    if mine.len() != prefix_folds.len() + 1 {
                        return Err(format!("point {}: {} statistics reports for {} consumed frames with a zero report interval", round, mine.len(), prefix_folds.len()));
                    }
                    for (s, pf) in mine.iter().zip(prefix_folds.iter()) {
                        stats_match(s, pf, scn.bch, ebn0, scn.k()).map_err(|e| format!("intermediate report of point {}: {}", round, e))?;
                    }
                } else if mine.len() != 1 {
                    return Err(format!("point {}: {} statistics reports with a one-hour interval (expected the final one only)", round, mine.len()));
                }
            }
            if rep_idx != stats_reports.len() {
                return Err("statistics reports for an unknown Eb/N0 point".into());
            }
            let tag = format!("ok:{:?}", stats.iter().map(|s| (s.num_frames, s.ldpc.bit_errors, s.ldpc.frame_errors, s.total_iterations)).collect::<Vec<_>>());
            Ok(Judged { arrival, outcome_tag: tag })
        }
    }
}

fn model_cfg(scn: &Scenario) -> crate::c13m::Cfg {
    crate::c13m::Cfg {
        workers: scn.workers,
        errors: scn.errors,
        rounds: scn.rounds,
        interval_zero: scn.interval_zero,
        budget: scn.budget,
        panic_in_decoder: scn.inject == Inject::DecoderPanic,
    }
}

/// The scripted outcome of a frame, in the vocabulary of the protocol model.
fn model_kind(scn: &Scenario, round: usize, w: usize, f: usize) -> crate::c13m::Kind {
    use crate::c13m::Kind;
    match scn.inject {
        Inject::StageErr => return Kind::StageErr,
        Inject::InterleaverPanic | Inject::Psk8Panic => return Kind::Panic,
        _ => {}
    }
    let fr = scn.frame(round, w, f);
    if fr.panic {
        Kind::Panic
    } else if (scn.bch > 0 && fr.flips as u64 > scn.bch) || (scn.bch == 0 && fr.flips > 0) {
        Kind::Bad
    } else {
        Kind::Good
    }
}

#[derive(Default)]
struct ExploreStats {
    executions: u64,
    decisions: u64,
    max_decisions: usize,
    arrival_orders: HashSet<u64>,
    outcomes: HashSet<u64>,
    deadlocks: u64,
    complete: bool,
    determinism_checks: u64,
    /// executions replayed through the protocol model / disagreements (first one kept)
    conf_checked: u64,
    conf_mismatches: u64,
    conf_first: Option<String>,
}

/// Runs one schedule prefix, judges it, returns the child prefixes within the bound.
fn step(scn: &Arc<Scenario>, bound: usize, prefix: &[usize], count: bool, st: &mut ExploreStats, acc: &mut Acc) -> Vec<Vec<usize>> {
    let res = run_once(scn, prefix);
    let choices: Vec<usize> = res.decisions.iter().map(|d| d.chosen).collect();
    if let Outcome::Aborted(Abort::Divergence(m)) = &res.outcome {
        machinery(&format!("C13: replay of a recorded prefix diverged: {}", m));
    }
    let mut children = Vec::new();
    let mut cost = 0usize;
    for (i, d) in res.decisions.iter().enumerate() {
        if i >= prefix.len() {
            for alt in 1..d.enabled.len() {
                // leaving a thread whose own operation is enabled is a preemption
                let c = cost + usize::from(d.at_enabled);
                if c <= bound {
                    let mut p = choices[..i].to_vec();
                    p.push(alt);
                    children.push(p);
                }
            }
        }
        if d.at_enabled && d.chosen != 0 {
            cost += 1;
        }
    }
    if !count {
        return children;
    }
    let verdict = judge(scn, &res);
    st.executions += 1;
    st.decisions += res.decisions.len() as u64;
    st.max_decisions = st.max_decisions.max(res.decisions.len());
    if matches!(res.outcome, Outcome::Aborted(Abort::Deadlock(_))) {
        st.deadlocks += 1;
    }
    if let Ok(j) = &verdict {
        st.arrival_orders.insert(hash64(&j.arrival));
        st.outcomes.insert(hash64(&j.outcome_tag));
    }
    if !scn.drop_points {
        if let Outcome::Done(Ok(o)) = &res.outcome {
            st.conf_checked += 1;
            let real_ok = match &o.ret {
                Ok(Ok(_)) => Some(true),
                Ok(Err(_)) => Some(false),
                Err(_) => None,
            };
            if let Err(e) = crate::c13m::conform(&model_cfg(scn), &res.decisions, &res.log, &|r, w, f| model_kind(scn, r, w, f), real_ok) {
                st.conf_mismatches += 1;
                if st.conf_first.is_none() {
                    st.conf_first = Some(format!("{} [scenario {} schedule {:?}]", e, scn.id, choices));
                }
            }
        }
    }
    if st.executions % 256 == 1 {
        st.determinism_checks += 1;
        let again = run_once(scn, &choices);
        if again.decisions != res.decisions || again.log != res.log {
            eprintln!("scenario {} choices {:?}", scn.id, choices);
            machinery("C13: the same schedule produced two different executions (uncontrolled nondeterminism)");
        }
    }
    acc.evals += 1;
    if res.decisions.iter().any(|d| d.enabled.len() > 1) {
        acc.nontrivial += 1;
    }
    match &verdict {
        Ok(j) => {
            acc.outcome(&(scn.id.clone(), j.outcome_tag.clone()));
            if st.executions % 5003 == 7 || (st.executions == 3 && scn.workers > 1) {
                let arr = j.arrival.clone();
                let ch = choices.clone();
                acc.sample(|| json!({"scenario": scn.id, "schedule_choices": ch, "arrival_order_(round,worker,frame)": arr}));
            }
        }
        Err(text) => {
            // key on the scenario and the failure class so that one defect is one finding
            let class: String = text.chars().take(48).map(|c| if c.is_whitespace() { '_' } else { c }).collect();
            acc.violate(
                format!("ber:{}:{}", scn.id, class),
                format!("{} [schedule {:?}]", text, choices),
                json!({"kind": "schedule", "scenario": scn.id, "choices": choices}),
            );
        }
    }
    children
}

/// Preemption-bounded DFS (single explorer per process; parallelism is by
/// process: shard `shard` of `nshards` takes every nshards-th subtree of a
/// deterministic breadth-first frontier; frontier-internal nodes are counted by
/// shard 0 only).
fn explore(scn: &Arc<Scenario>, bound: usize, shard: usize, nshards: usize, deadline: std::time::Instant, acc: &mut Acc) -> ExploreStats {
    let mut st = ExploreStats { complete: true, ..Default::default() };
    let mut frontier: std::collections::VecDeque<Vec<usize>> = std::collections::VecDeque::new();
    frontier.push_back(vec![]);
    let mut stack: Vec<Vec<usize>> = Vec::new();
    if nshards > 1 {
        // breadth-first expansion until the frontier is wide enough (or exhausted)
        let mut leaves_done = 0usize;
        while !frontier.is_empty() && frontier.len() < 4 * nshards && leaves_done < 64 * nshards {
            let p = frontier.pop_front().unwrap();
            let ch = step(scn, bound, &p, shard == 0, &mut st, acc);
            if ch.is_empty() {
                leaves_done += 1;
            }
            frontier.extend(ch);
        }
        for (j, p) in frontier.into_iter().enumerate() {
            if j % nshards == shard {
                stack.push(p);
            }
        }
    } else {
        stack.push(vec![]);
    }
    while let Some(p) = stack.pop() {
        if std::time::Instant::now() > deadline {
            st.complete = false;
            break;
        }
        let ch = step(scn, bound, &p, true, &mut st, acc);
        stack.extend(ch);
    }
    st
}

fn scenarios(thorough: bool) -> Vec<(Scenario, Vec<usize>)> {
    // (scenario, preemption bounds to complete in order)
    let mut v = Vec::new();
    let mut add = |workers: usize, errors: u64, bch: u64, iz: bool, rounds: usize, script: usize, inject: Inject, bounds: Vec<usize>, extra_budget: usize| {
        let s = Scenario {
            id: format!("W{}-E{}-bch{}-{}-R{}-S{}-{:?}{}", workers, errors, bch, if iz { "int0" } else { "int1h" }, rounds, script, inject, if extra_budget > 0 { format!("-slack{}", extra_budget) } else { String::new() }),
            workers,
            errors,
            bch,
            interval_zero: iz,
            rounds,
            script,
            budget: 0,
            inject,
            drop_points: false,
            bigk: false,
        };
        // frame budget: enough frames for any single worker to supply the required errors on
        // its own (so the collector can always finish), plus the requested slack
        let mut need = 0usize;
        for round in 0..rounds {
            for w in 0..workers {
                let mut cnt = 0u64;
                let mut f = 0usize;
                let mut supplies = true;
                while cnt < errors {
                    let fr = s.frame(round, w, f);
                    if (bch > 0 && fr.flips as u64 > bch) || (bch == 0 && fr.flips > 0) {
                        cnt += 1;
                    }
                    f += 1;
                    if f > 64 {
                        // this worker never errs (script 4): it cannot supply the errors on its own
                        supplies = false;
                        break;
                    }
                }
                if supplies {
                    need = need.max(f);
                } else if w == 0 {
                    machinery("C13: a frame script cannot supply the required frame errors");
                }
            }
        }
        let s = Scenario { budget: need + extra_budget, ..s };
        v.push((s, bounds));
    };
    let t = thorough;
    for script in 0..4 {
        for &bch in &[0u64, 1] {
            for &iz in &[true, false] {
                // one worker, one point: ALL schedules (the heaviest combination only in the thorough tier)
                add(1, 1, bch, iz, 1, script, Inject::None, vec![UNBOUNDED], 0);
                add(1, 2, bch, iz, 1, script, Inject::None, vec![if !t && bch == 1 && iz { 4 } else { UNBOUNDED }], 0);
                // two workers, one point
                if script == 0 {
                    // thorough: ALL schedules for E=1 without outer code (with it the space exceeds 10^8); bound 4 otherwise
                    add(2, 1, bch, iz, 1, script, Inject::None, vec![if t && bch == 0 { UNBOUNDED } else if t { 4 } else { 3 }], 0);
                    add(2, 2, bch, iz, 1, script, Inject::None, vec![if t && bch == 0 { 5 } else if t { 4 } else { 3 }], 0);
                } else if script == 1 || t {
                    add(2, 1, bch, iz, 1, script, Inject::None, vec![if t { 3 } else { 2 }], 0);
                    add(2, 2, bch, iz, 1, script, Inject::None, vec![if t { 3 } else { 2 }], 0);
                } else {
                    add(2, 2, bch, iz, 1, script, Inject::None, vec![2], 0);
                }
                // three workers, one point
                if script == 0 && iz {
                    add(3, 1, bch, iz, 1, script, Inject::None, vec![if t && bch == 0 { 3 } else { 2 }], 0);
                    add(3, 2, bch, iz, 1, script, Inject::None, vec![if t && bch == 0 { 3 } else if t || bch == 0 { 2 } else { 1 }], 0);
                } else if script == 0 && t {
                    add(3, 1, bch, iz, 1, script, Inject::None, vec![2], 0);
                    add(3, 2, bch, iz, 1, script, Inject::None, vec![2], 0);
                } else if script == 1 || (t && bch == 0 && iz) {
                    add(3, 2, bch, iz, 1, script, Inject::None, vec![if t && bch == 0 && iz { 2 } else { 1 }], 0);
                }
            }
        }
        // two points: the second one must start clean
        add(1, 2, 1, true, 2, script, Inject::None, vec![3], 0);
        add(2, 1, 0, true, 2, script, Inject::None, vec![if t { 3 } else { 2 }], 0);
        if t {
            add(2, 2, 1, false, 2, script, Inject::None, vec![2], 0);
        }
    }
    add(3, 1, 0, true, 2, 0, Inject::None, vec![1], 0);
    // only worker 0 ever errs: the other workers must still notice the termination request
    for w in 2..=3 {
        for &bch in &[0u64, 1] {
            add(w, 2, bch, true, 1, 4, Inject::None, vec![if t { 5 - w } else { 4 - w }], 0);
            if w == 2 || t {
                add(w, 1, bch, false, 2, 4, Inject::None, vec![if w == 3 { 1 } else { 2 }], 0);
            }
        }
    }
    if t {
        add(2, 2, 0, true, 1, 0, Inject::None, vec![3], 1);
    }
    // long runs: a worker gets hundreds of frames ahead of the collector (more results outstanding
    // than any small queue capacity: beyond 256, and beyond 1024)
    add(2, 1, 0, false, 1, 4, Inject::None, vec![1], 300);
    add(3, 1, 0, false, 1, 4, Inject::None, vec![0], 300);
    add(2, 1, 0, false, 1, 4, Inject::None, vec![0], 1100);
    add(2, 2, 1, false, 1, 0, Inject::None, vec![0], 300);
    // frames with more than 255 bit errors (k = 300), outer-code thresholds at 255 / 256
    for (w, e, bch, bound) in [(1usize, 2u64, 0u64, UNBOUNDED), (1, 1, 255, UNBOUNDED), (1, 2, 256, 3), (2, 2, 0, 1), (2, 1, 256, 1)] {
        add(w, e, bch, w == 1, 1, 5, Inject::None, vec![bound], 0);
    }
    // zero required frame errors: the point ends without consuming a frame (ratios are 0/0)
    for w in 1..=3 {
        add(w, 0, 0, true, 1, 0, Inject::None, vec![if w == 3 { 2 } else { 3 }], 1);
        add(w, 0, 1, false, 2, 1, Inject::None, vec![if w == 3 && !t { 1 } else { 2 }], 1);
    }
    // four workers
    add(4, 1, 0, true, 1, 0, Inject::None, vec![if t { 2 } else { 1 }], 0);
    add(4, 2, 1, false, 1, 1, Inject::None, vec![1], 0);
    // script 5 runs on the k = 300 code
    for (s, _) in v.iter_mut() {
        if s.script == 5 {
            s.bigk = true;
            s.id = format!("{}-k300", s.id);
        }
    }
    // the same scenarios with endpoint drops as scheduling points of their own: outcomes must be
    // judged correct there too (validates the default granularity, see DESIGN.md 10.3)
    let dp: Vec<(Scenario, Vec<usize>)> = v
        .iter()
        .filter(|(s, _)| s.workers == 2 && s.rounds == 1 && s.script == 0 && s.interval_zero)
        .map(|(s, _)| (Scenario { id: format!("{}-dp", s.id), drop_points: true, ..s.clone() }, vec![if t { 3 } else { 2 }]))
        .collect();
    v.extend(dp);
    let mut add = |workers: usize, errors: u64, bch: u64, iz: bool, rounds: usize, script: usize, inject: Inject, bounds: Vec<usize>, dp: bool| {
        let s = Scenario {
            id: format!("W{}-E{}-bch{}-{}-R{}-S{}-{:?}{}", workers, errors, bch, if iz { "int0" } else { "int1h" }, rounds, script, inject, if dp { "-dp" } else { "" }),
            workers,
            errors,
            bch,
            interval_zero: iz,
            rounds,
            script,
            budget: errors as usize + 1,
            inject,
            drop_points: dp,
            bigk: false,
        };
        v.push((s, bounds));
    };
    for inj in [Inject::StageErr, Inject::InterleaverPanic, Inject::Psk8Panic, Inject::DecoderPanic] {
        for w in 1..=3 {
            add(w, 2, 0, true, 1, 0, inj, vec![2], true);
            add(w, 2, 0, true, 1, 0, inj, vec![if w == 3 { 2 } else if t { 4 } else { 3 }], false);
            if w <= 2 {
                add(w, 1, 1, false, 2, 1, inj, vec![if t { 3 } else { 2 }], false);
            }
        }
    }
    v
}

fn find_scenario(id: &str) -> Option<Scenario> {
    scenarios(true).into_iter().chain(scenarios(false)).map(|(s, _)| s).find(|s| s.id == id)
}

/// Worker-process entry: explores one (scenario, bound, shard) job and prints a JSON result.
pub fn worker(arg: &str) -> i32 {
    let v: Value = serde_json::from_str(arg).unwrap_or_else(|_| machinery("bad worker argument"));
    let scn = Arc::new(find_scenario(v["scenario"].as_str().unwrap()).unwrap_or_else(|| machinery("unknown scenario")));
    let bound = v["bound"].as_u64().unwrap() as usize;
    let shard = v["shard"].as_u64().unwrap() as usize;
    let nshards = v["nshards"].as_u64().unwrap() as usize;
    let budget = v["budget_s"].as_f64().unwrap();
    // Exactly one thread of an execution runs at a time, so the whole worker process is
    // pinned to one CPU: baton hand-offs then never cross cores.
    if let Some(cpu) = v["cpu"].as_u64() {
        unsafe {
            // keep the machine responsive: the explorer saturates every core
            libc::setpriority(libc::PRIO_PROCESS, 0, 10);
            let mut set: libc::cpu_set_t = std::mem::zeroed();
            libc::CPU_ZERO(&mut set);
            libc::CPU_SET(cpu as usize, &mut set);
            libc::sched_setaffinity(0, std::mem::size_of::<libc::cpu_set_t>(), &set);
        }
    }
    let mut acc = Acc::new();
    let deadline = std::time::Instant::now() + Duration::from_secs_f64(budget);
    let st = explore(&scn, bound, shard, nshards, deadline, &mut acc);
    let out = json!({
        "scenario": scn.id, "bound": bound, "shard": shard,
        "executions": st.executions, "decisions": st.decisions, "max_decisions": st.max_decisions,
        "arrival_orders": st.arrival_orders.iter().collect::<Vec<_>>(),
        "outcomes": st.outcomes.iter().collect::<Vec<_>>(),
        "deadlocks": st.deadlocks, "complete": st.complete, "determinism_checks": st.determinism_checks,
        "conf_checked": st.conf_checked, "conf_mismatches": st.conf_mismatches, "conf_first": st.conf_first,
        "evals": acc.evals, "nontrivial": acc.nontrivial, "viol_total": acc.viol_total,
        "viols": acc.viols.iter().map(|x| json!({"key": x.key, "text": x.text, "replay": x.replay})).collect::<Vec<_>>(),
        "samples": acc.samples,
        "acc_outcomes": acc.outcomes.iter().collect::<Vec<_>>(),
    });
    println!("{}", out);
    0
}

struct Job {
    scenario: String,
    bound: usize,
    shard: usize,
    nshards: usize,
}

fn run_jobs(jobs: Vec<Job>, budget_s: f64, global_s: f64) -> Vec<Value> {
    let t_start = std::time::Instant::now();
    use std::process::{Command, Stdio};
    let exe = std::env::current_exe().unwrap_or_else(|_| machinery("cannot find own executable"));
    let queue = Mutex::new(jobs.into_iter().rev().collect::<Vec<_>>());
    let results: Mutex<Vec<Value>> = Mutex::new(Vec::new());
    let nproc = std::thread::available_parallelism().map(|n| n.get()).unwrap_or(4).min(16);
    std::thread::scope(|sc| {
        for cpu in 0..nproc {
            let (queue, results, exe) = (&queue, &results, &exe);
            sc.spawn(move || loop {
                let job = queue.lock().unwrap().pop();
                let Some(j) = job else { break };
                // global wall-clock cap of the whole check: what does not fit is reported as not completed
                let left = global_s - t_start.elapsed().as_secs_f64();
                if left < 1.0 {
                    results.lock().unwrap().push(json!({"scenario": j.scenario, "bound": j.bound, "shard": j.shard, "executions": 0, "decisions": 0, "max_decisions": 0, "arrival_orders": [], "outcomes": [], "deadlocks": 0, "complete": false, "determinism_checks": 0, "conf_checked": 0, "conf_mismatches": 0, "conf_first": null, "evals": 0, "nontrivial": 0, "viol_total": 0, "viols": [], "samples": [], "acc_outcomes": []}));
                    continue;
                }
                let arg = json!({"scenario": j.scenario, "bound": j.bound, "shard": j.shard, "nshards": j.nshards, "budget_s": budget_s.min(left), "cpu": cpu}).to_string();
                let out = Command::new(exe).arg("C13").arg("--worker").arg(&arg).stdin(Stdio::null()).stderr(Stdio::inherit()).output();
                match out {
                    Ok(o) if o.status.success() => {
                        let text = String::from_utf8_lossy(&o.stdout);
                        let line = text.lines().last().unwrap_or("");
                        match serde_json::from_str::<Value>(line) {
                            Ok(v) => results.lock().unwrap().push(v),
                            Err(_) => machinery(&format!("C13: worker for {} printed no result", j.scenario)),
                        }
                    }
                    Ok(o) => machinery(&format!("C13: worker for {} bound {} failed with {:?}", j.scenario, j.bound, o.status)),
                    Err(e) => machinery(&format!("C13: cannot start worker: {}", e)),
                }
            });
        }
    });
    results.into_inner().unwrap()
}

pub fn run(run: &Run) -> i32 {
    let mut acc = Acc::new();
    let mut extra = serde_json::Map::new();
    let mut graph = (0u64, 0u64, 0u64);
    let mut all_complete = true;
    if let Some(p) = &run.replay {
        let v: Value = serde_json::from_str(&std::fs::read_to_string(p).unwrap_or_else(|_| machinery("cannot read replay"))).unwrap_or_else(|_| machinery("bad replay json"));
        let e = &v["element"];
        let scn = Arc::new(find_scenario(e["scenario"].as_str().unwrap_or("")).unwrap_or_else(|| machinery("unknown scenario in replay")));
        let choices: Vec<usize> = e["choices"].as_array().unwrap().iter().map(|x| x.as_u64().unwrap() as usize).collect();
        let res = run_once(&scn, &choices);
        let again = run_once(&scn, &choices);
        if again.decisions != res.decisions || again.log != res.log {
            machinery("C13: replaying the schedule twice gave different executions");
        }
        acc.evals += 1;
        if let Err(t) = judge(&scn, &res) {
            let class: String = t.chars().take(48).map(|c| if c.is_whitespace() { '_' } else { c }).collect();
            acc.violate(format!("ber:{}:{}", scn.id, class), t, e.clone());
        }
        graph = (res.decisions.len().max(1) as u64, res.decisions.len().max(1) as u64, 1);
    } else {
        let list = scenarios(run.thorough());
        let budget = if run.thorough() { 600.0 } else { 40.0 };
        // only the highest bound of each scenario is explored: a bound-b exploration contains
        // every schedule with fewer preemptions (reported per bound through the cost histogram)
        let mut jobs = Vec::new();
        for (scn, bounds) in &list {
            let b = *bounds.last().unwrap();
            let nshards = if scn.budget > 100 && b >= 1 {
                16
            } else { match (scn.workers, b, scn.rounds) {
                (2, UNBOUNDED, _) => 256,
                (1, UNBOUNDED, _) => 4,
                (4, b, _) if b >= 2 => 64,
                (4, _, _) => 16,
                (3, b, _) if b >= 3 => 64,
                (3, 2, _) => 16,
                (3, 1, 2) => 8,
                (2, b, _) if b >= 5 => 128,
                (2, b, _) if b >= 4 => 64,
                (2, 3, _) => 16,
                (2, 2, 2) => 8,
                (2, 2, _) => 2,
                _ => 1,
            } };
            for shard in 0..nshards {
                jobs.push(Job { scenario: scn.id.clone(), bound: b, shard, nshards });
            }
        }
        extra.insert("worker_processes_jobs".into(), json!(jobs.len()));
        // cheap jobs first, so that a cap only ever cuts the deepest scenarios
        jobs.sort_by_key(|j| j.nshards);
        let results = run_jobs(jobs, budget, if run.thorough() { 1500.0 } else { 110.0 });
        let mut per: std::collections::BTreeMap<String, (u64, u64, usize, HashSet<u64>, HashSet<u64>, u64, bool, u64, usize)> = Default::default();
        for r in &results {
            let id = r["scenario"].as_str().unwrap().to_string();
            let e = per.entry(id).or_insert((0, 0, 0, HashSet::new(), HashSet::new(), 0, true, 0, 0));
            e.0 += r["executions"].as_u64().unwrap();
            e.1 += r["decisions"].as_u64().unwrap();
            e.2 = e.2.max(r["max_decisions"].as_u64().unwrap() as usize);
            e.3.extend(r["arrival_orders"].as_array().unwrap().iter().map(|x| x.as_u64().unwrap()));
            e.4.extend(r["outcomes"].as_array().unwrap().iter().map(|x| x.as_u64().unwrap()));
            e.5 += r["deadlocks"].as_u64().unwrap();
            e.6 &= r["complete"].as_bool().unwrap();
            e.7 += r["determinism_checks"].as_u64().unwrap();
            e.8 = r["bound"].as_u64().unwrap() as usize;
            acc.evals += r["evals"].as_u64().unwrap();
            acc.nontrivial += r["nontrivial"].as_u64().unwrap();
            acc.viol_total += r["viol_total"].as_u64().unwrap();
            for x in r["viols"].as_array().unwrap() {
                let key = x["key"].as_str().unwrap().to_string();
                if acc.viols.len() < MAX_KEPT_VIOLATIONS && !acc.viols.iter().any(|v| v.key == key) {
                    acc.viols.push(Violation { key, text: x["text"].as_str().unwrap().to_string(), replay: x["replay"].clone() });
                }
            }
            for x in r["samples"].as_array().unwrap() {
                if acc.samples.len() < MAX_SAMPLES {
                    acc.samples.push(x.clone());
                }
            }
            acc.outcomes.extend(r["acc_outcomes"].as_array().unwrap().iter().map(|x| x.as_u64().unwrap()));
        }
        let conf_checked: u64 = results.iter().map(|r| r["conf_checked"].as_u64().unwrap_or(0)).sum();
        let conf_mismatches: u64 = results.iter().map(|r| r["conf_mismatches"].as_u64().unwrap_or(0)).sum();
        let conf_first: Option<String> = results.iter().filter_map(|r| r["conf_first"].as_str().map(|s| s.to_string())).min();
        extra.insert("protocol_model".into(), protocol_model(run.thorough(), conf_checked, conf_mismatches, conf_first));
        let mut rows = Vec::new();
        for (id, e) in &per {
            graph.0 += e.1;
            graph.1 += e.1;
            graph.2 += e.0;
            all_complete &= e.6;
            rows.push(json!({
                "scenario": id, "preemption_bound": if e.8 >= UNBOUNDED { json!("unbounded (all schedules)") } else { json!(e.8) }, "bound_completed": e.6, "executions": e.0, "decision_points": e.1,
                "max_decisions_in_one_execution": e.2, "distinct_arrival_orders": e.3.len(), "distinct_outcomes": e.4.len(),
                "deadlocks": e.5, "determinism_rechecks": e.7,
            }));
        }
        if per.len() != list.len() {
            let ids: Vec<&String> = list.iter().map(|(s, _)| &s.id).collect();
            let mut sorted = ids.clone();
            sorted.sort();
            sorted.dedup();
            machinery(&format!("C13: {} scenarios planned ({} distinct ids), {} produced results", list.len(), sorted.len(), per.len()));
        }
        extra.insert("scenarios".into(), json!(rows.len()));
        extra.insert("per_scenario".into(), Value::Array(rows));
    }
    extra.insert("all_bounds_completed".into(), json!(all_complete));
    finish(
        run,
        acc,
        Coverage {
            rule: "stateless DFS over thread schedules of the real BerTest::run under a controlled scheduler (every channel send/recv/try_recv, spawn, join and thread exit is a scheduling point; one thread runs at a time), all schedules with at most b preemptions per scenario (b per scenario in per_scenario; includes every schedule with fewer preemptions; 'unbounded' = every schedule of the scenario, no bound: all one-worker one-point scenarios, and in the thorough tier the two-worker one-error scenarios of script 0); scenarios = worker counts 1..3 (4 at preemption bound 1-2) x required frame errors 0..2 x outer-code threshold off/1 x report interval 0/1h x 5 frame scripts (in the fifth only worker 0 ever produces frame errors) x 1 or 2 Eb/N0 points, plus failure injection (stage returns Err; interleaver / 8PSK stage panics in every worker; decoder panics in worker 0). Scripted decoders yield at low priority after their frame budget (the number of frames after which any single worker has supplied the required errors), which bounds how far a worker runs ahead. Oracle per execution: termination (deadlock = no enabled thread), all threads joined at return, statistics == fold of the scripted frames in the arrival order read from the scheduler's own log up to exactly the stopping prefix (bit-exact ratios), every intermediate report == fold of its prefix, single final 'finished' report, Err (not hang / panic) for unprocessable configurations. states/transitions = decision points executed; traces_validated_against_impl = complete executions of the implementation. Non-trivial = execution with at least one real scheduling choice. Exploration is sharded over worker processes by subtrees of a deterministic breadth-first frontier.".into(),
            exhaustive: all_complete,
            extra,
            graph: Some(graph),
            assumptions: vec![
                "worker counts above 4 and preemption depths above the reported bound are not explored".into(),
                "scheduling granularity: a thread runs atomically between two channel/spawn/join operations; endpoint drops are not separate scheduling points (they only enable other threads' pending operations and happen in the block that ends at the thread's next operation or exit)".into(),
                "ber.rs contains no unsafe code and no atomics, so data races are excluded by the type system".into(),
            ],
        },
    )
}

/// Explores the protocol model (see c13m.rs) for the worker counts the real-code explorer
/// cannot reach, provided every real execution explored in this run agreed with the model.
fn protocol_model(thorough: bool, checked: u64, mismatches: u64, first: Option<String>) -> Value {
    use crate::c13m::{explore as mexplore, Cfg, Kind};
    if mismatches > 0 || checked == 0 {
        // not a verdict on the property: the model simply no longer describes this code
        println!("NOTE C13: the protocol model is not bound to this code ({} of {} executions disagree); its results are not claimed. First disagreement: {}", mismatches, checked, first.clone().unwrap_or_default());
        return json!({"bound_to_code": false, "executions_replayed_through_model": checked, "disagreements": mismatches, "first_disagreement": first, "claimed": false});
    }
    let t0 = std::time::Instant::now();
    let mut rows = Vec::new();
    let mut all = true;
    let wmax = if thorough { 6 } else { 5 };
    let mut cfgs: Vec<(Cfg, Vec<Kind>)> = Vec::new();
    for w in 1..=wmax {
        for e in 0..=if w <= 4 { 3u64 } else { 2 } {
            for iz in [false, true] {
                if !thorough && w == 5 && (e == 0 || iz) {
                    continue;
                }
                let budget = match (thorough, w) {
                    (_, 1..=2) => 3,
                    (true, 3) => 3,
                    (false, 3) => 2,
                    (true, 4..=5) => 2,
                    _ => 1,
                };
                cfgs.push((Cfg { workers: w, errors: e, rounds: 1, interval_zero: iz, budget, panic_in_decoder: true }, vec![Kind::Good, Kind::Bad]));
                // worker failures: stage error and panic as further frame outcomes
                if w <= 4 && (thorough || w <= 3 || !iz) {
                    let b = if w <= 2 { 2 } else { 1 };
                    cfgs.push((Cfg { workers: w, errors: e, rounds: 1, interval_zero: iz, budget: b, panic_in_decoder: true }, vec![Kind::Good, Kind::Bad, Kind::StageErr, Kind::Panic]));
                }
            }
        }
        if w <= 3 {
            cfgs.push((Cfg { workers: w, errors: 1, rounds: 2, interval_zero: false, budget: 2, panic_in_decoder: true }, vec![Kind::Good, Kind::Bad]));
        }
    }
    let cap = if thorough { 80_000_000 } else { 8_000_000 };
    let results: Vec<(usize, Result<crate::c13m::ModelStats, String>)> = {
        use rayon::prelude::*;
        cfgs.par_iter().enumerate().map(|(i, (c, k))| (i, mexplore(c, k, cap))).collect()
    };
    let mut model_violation: Option<String> = None;
    for (i, r) in results {
        let (c, k) = &cfgs[i];
        let id = format!("W{}-E{}-R{}-{}-budget{}-{}", c.workers, c.errors, c.rounds, if c.interval_zero { "int0" } else { "int1h" }, c.budget, if k.len() > 2 { "with-failures" } else { "frames-only" });
        match r {
            Ok(st) => {
                all &= st.complete;
                rows.push(json!({"config": id, "states": st.states, "transitions": st.transitions, "terminal_states_ok": st.terminal_ok, "terminal_states_err": st.terminal_err, "max_depth": st.max_depth, "completed": st.complete}));
            }
            Err(e) => {
                model_violation.get_or_insert(format!("{}: {}", id, e));
            }
        }
    }
    if let Some(v) = &model_violation {
        // the model is bound to the code on everything replayed, and the model deadlocks: that is a
        // prediction about the code at a size the explorer did not reach; it is reported, not judged
        println!("NOTE C13: the protocol model (bound to the code on {} executions) reaches a bad state: {}", checked, v);
    }
    json!({
        "bound_to_code": true,
        "executions_replayed_through_model": checked,
        "disagreements": 0,
        "conformance": "every completed execution of the real BerTest::run explored above (scenarios without the -dp granularity) was replayed through the model decision by decision: same deciding thread, same own-operation enabledness, same ordered enabled list at every scheduling decision, same sequence of operations with results and channel numbers, same Ok/Err return",
        "exploration": "explicit-state DFS with full-state hashing over the model alone: every interleaving (no preemption bound), every frame outcome chosen nondeterministically below the frame budget (frames at or beyond it are forced to count, which makes every path finite); checked in every state: some thread is enabled unless the collector has returned; in every terminal state: every worker has exited (been joined)",
        "configs": rows,
        "all_completed": all,
        "bad_state": model_violation,
        "wall_s": t0.elapsed().as_secs_f64(),
        "claimed": model_violation.is_none(),
    })
}

#[allow(dead_code)]
fn _unused(_: &Decision) {}
