//! C13, second engine: an explicit-state model of the collector / worker
//! protocol of `BerTest::do_run`, kept bound to the code by lock-step trace
//! conformance.
//!
//! The model is a deterministic step function over plain data: one collector
//! thread, W worker threads per Eb/N0 point, the results channel, one
//! terminate channel per worker, and the scheduling rule of the controlled
//! scheduler (which thread's pending operation is enabled). It is used twice:
//!
//! * **conformance** — every execution of the real `BerTest::run` that the
//!   schedule explorer of `c13.rs` completes is replayed through the model
//!   decision by decision: at every scheduling decision the thread that reached
//!   it, whether its own operation is enabled and the ordered list of enabled
//!   threads must be exactly what the model computes, and the operations the
//!   code performed (sends, receives, polls, spawns, joins, exits, with their
//!   results and channel numbers) must be exactly the model's. Where a scenario
//!   is explored without preemption bound this makes the two execution trees
//!   equal node by node.
//! * **exploration** — the model alone is explored exhaustively (all
//!   interleavings, no preemption bound, every frame outcome chosen
//!   nondeterministically, worker failures included) for worker counts the
//!   real-code explorer cannot reach, checking that no state is a deadlock and
//!   that every maximal path ends with the collector returned and every worker
//!   joined.
//!
//! A conformance mismatch is NOT a violation of the property (a refactoring that
//! keeps the property may change the operation sequence): it only withdraws the
//! model's extension of the claim, which is then reported as unbound.

use std::collections::{HashSet, VecDeque};
use verif_shim::sched::{Decision, Event};

#[derive(Clone, Copy, Debug, PartialEq, Eq, Hash)]
pub enum Kind {
    /// frame result that does not count towards the stopping rule
    Good,
    /// frame result that counts towards the stopping rule
    Bad,
    /// a stage returns Err: the worker sends Err(()) and returns Err
    StageErr,
    /// the worker panics before sending anything
    Panic,
}

#[derive(Clone, Copy, Debug, PartialEq, Eq, Hash)]
enum Msg {
    Good,
    Bad,
    ErrUnit,
}

#[derive(Clone, Copy, Debug, PartialEq, Eq, Hash)]
enum CPc {
    Spawn(u8),
    Recv,
    Report,
    Final,
    Term(u8),
    Join(u8),
    Finished,
    Done,
}

#[derive(Clone, Copy, Debug, PartialEq, Eq, Hash)]
enum WPc {
    Unborn,
    Start,
    Try,
    Low,
    Send(Msg),
    /// finished; bool = ended by Err or panic (join reports it)
    Dead(bool),
}

#[derive(Clone, Debug, PartialEq, Eq, Hash)]
struct WState {
    pc: WPc,
    frames: u16,
    term_full: bool,
    term_rx_alive: bool,
    panicked: bool,
}

#[derive(Clone, Debug, PartialEq, Eq, Hash)]
pub struct MState {
    round: u8,
    cpc: CPc,
    errs: u8,
    join_err: bool,
    returned_err: bool,
    q: VecDeque<Msg>,
    senders: u8,
    w: Vec<WState>,
    /// thread that made the last step (reached the current decision)
    at: u8,
}

#[derive(Clone, Debug)]
pub struct Cfg {
    pub workers: usize,
    pub errors: u64,
    pub rounds: usize,
    pub interval_zero: bool,
    /// frames after which a worker yields at low priority before each frame
    pub budget: usize,
    /// whether the frame counter / low-priority yield is reached before a panic of kind Panic
    /// (true: the decoder itself panics; false: an earlier stage panics)
    pub panic_in_decoder: bool,
}

/// What a model step emitted (same shape as the scheduler's log, drops and notes left out).
pub type MEvent = Event;

impl MState {
    pub fn new(cfg: &Cfg) -> MState {
        let mut s = MState {
            round: 0,
            cpc: CPc::Done,
            errs: 0,
            join_err: false,
            returned_err: false,
            q: VecDeque::new(),
            senders: 0,
            w: Vec::new(),
            at: 0,
        };
        s.begin_round(cfg);
        s
    }

    fn begin_round(&mut self, cfg: &Cfg) {
        self.errs = 0;
        self.q.clear();
        self.senders = 1;
        self.w = (0..cfg.workers).map(|_| WState { pc: WPc::Unborn, frames: 0, term_full: false, term_rx_alive: true, panicked: false }).collect();
        if cfg.workers > 0 {
            self.cpc = CPc::Spawn(0);
        } else {
            self.senders = 0;
            self.loop_check(cfg);
        }
    }

    fn loop_check(&mut self, cfg: &Cfg) {
        self.cpc = if (self.errs as u64) < cfg.errors { CPc::Recv } else { CPc::Final };
    }

    fn tid_of(&self, cfg: &Cfg, i: usize) -> usize {
        1 + self.round as usize * cfg.workers + i
    }

    fn results_chan(&self, cfg: &Cfg) -> usize {
        1 + self.round as usize * (cfg.workers + 1)
    }

    fn collector_enabled(&self) -> bool {
        match self.cpc {
            CPc::Spawn(_) | CPc::Report | CPc::Final | CPc::Term(_) | CPc::Finished => true,
            CPc::Recv => !self.q.is_empty() || self.senders == 0,
            CPc::Join(i) => matches!(self.w[i as usize].pc, WPc::Dead(_)),
            CPc::Done => false,
        }
    }

    /// (at, at_enabled, enabled in canonical order) of the current decision, or None when no
    /// decision is taken (collector returned), or Err for a deadlock.
    pub fn decision(&self, cfg: &Cfg) -> Result<Option<(usize, bool, Vec<usize>)>, String> {
        if self.cpc == CPc::Done {
            return Ok(None);
        }
        let at = self.at as usize;
        let mut normal = Vec::new();
        let mut low = Vec::new();
        let mut at_enabled = false;
        if self.collector_enabled() {
            if at == 0 {
                at_enabled = true;
            } else {
                normal.push(0);
            }
        }
        for (i, w) in self.w.iter().enumerate() {
            let t = self.tid_of(cfg, i);
            match w.pc {
                WPc::Start | WPc::Try | WPc::Send(_) => {
                    if t == at {
                        at_enabled = true;
                    } else {
                        normal.push(t);
                    }
                }
                WPc::Low => low.push(t),
                WPc::Unborn | WPc::Dead(_) => {}
            }
        }
        if at_enabled {
            normal.insert(0, at);
        }
        if normal.is_empty() {
            if let Some(p) = low.iter().position(|&t| t == at) {
                low.remove(p);
                low.insert(0, at);
            }
            if low.is_empty() {
                return Err(format!("deadlock in the protocol model: collector at {:?}, workers {:?}", self.cpc, self.w.iter().map(|w| w.pc).collect::<Vec<_>>()));
            }
            Ok(Some((at, false, low)))
        } else {
            Ok(Some((at, at_enabled, normal)))
        }
    }

    /// Whether thread `tid`'s next step needs a frame outcome (to branch on in exploration).
    pub fn needs_kind(&self, cfg: &Cfg, tid: usize) -> Option<(usize, usize)> {
        if tid == 0 {
            return None;
        }
        let i = tid - 1 - self.round as usize * cfg.workers;
        let w = &self.w[i];
        match w.pc {
            WPc::Try if !w.term_full && (w.frames as usize) < cfg.budget => Some((i, w.frames as usize)),
            WPc::Low => Some((i, w.frames as usize)),
            _ => None,
        }
    }

    fn die(&mut self, i: usize, bad: bool, panicked: bool) {
        let w = &mut self.w[i];
        w.pc = WPc::Dead(bad);
        w.panicked = panicked;
        w.term_rx_alive = false;
        self.senders -= 1;
    }

    fn outcome(&mut self, cfg: &Cfg, i: usize, kind: Kind, tid: usize, ev: &mut Vec<MEvent>) {
        let _ = cfg;
        match kind {
            Kind::Good => self.w[i].pc = WPc::Send(Msg::Good),
            Kind::Bad => self.w[i].pc = WPc::Send(Msg::Bad),
            Kind::StageErr => self.w[i].pc = WPc::Send(Msg::ErrUnit),
            Kind::Panic => {
                self.die(i, true, true);
                ev.push(Event::Exit { tid, panicked: true });
            }
        }
    }

    /// Performs the pending operation of `tid` and runs it to its next scheduling point.
    /// `kind` is the outcome of the frame the worker starts in this step, if it starts one.
    pub fn step(&mut self, cfg: &Cfg, tid: usize, kind: Option<Kind>, ev: &mut Vec<MEvent>) -> Result<(), String> {
        self.at = tid as u8;
        if tid == 0 {
            let rc = self.results_chan(cfg);
            match self.cpc {
                CPc::Spawn(i) => {
                    let i = i as usize;
                    self.senders += 1;
                    self.w[i].pc = WPc::Start;
                    ev.push(Event::Spawn { parent: 0, child: self.tid_of(cfg, i) });
                    if i + 1 < cfg.workers {
                        self.cpc = CPc::Spawn(i as u8 + 1);
                    } else {
                        self.senders -= 1;
                        self.loop_check(cfg);
                    }
                }
                CPc::Recv => match self.q.pop_front() {
                    Some(Msg::ErrUnit) => {
                        ev.push(Event::Recv { chan: rc, tid: 0, ok: true });
                        self.cpc = CPc::Final;
                    }
                    Some(m) => {
                        ev.push(Event::Recv { chan: rc, tid: 0, ok: true });
                        if m == Msg::Bad {
                            self.errs += 1;
                        }
                        if cfg.interval_zero {
                            self.cpc = CPc::Report;
                        } else {
                            self.loop_check(cfg);
                        }
                    }
                    None => {
                        if self.senders != 0 {
                            return Err("model: Recv stepped while not enabled".into());
                        }
                        ev.push(Event::Recv { chan: rc, tid: 0, ok: false });
                        self.cpc = CPc::Final;
                    }
                },
                CPc::Report => {
                    ev.push(Event::Send { chan: 0, tid: 0, ok: true });
                    self.loop_check(cfg);
                }
                CPc::Final => {
                    ev.push(Event::Send { chan: 0, tid: 0, ok: true });
                    self.cpc = if cfg.workers > 0 { CPc::Term(0) } else { CPc::Join(0) };
                    if cfg.workers == 0 {
                        self.end_round(cfg);
                    }
                }
                CPc::Term(i) => {
                    let i = i as usize;
                    let ok = self.w[i].term_rx_alive;
                    if ok {
                        self.w[i].term_full = true;
                    }
                    ev.push(Event::Send { chan: rc + 1 + i, tid: 0, ok });
                    self.cpc = if i + 1 < cfg.workers { CPc::Term(i as u8 + 1) } else { CPc::Join(0) };
                }
                CPc::Join(i) => {
                    let i = i as usize;
                    let WPc::Dead(bad) = self.w[i].pc else { return Err("model: Join stepped while not enabled".into()) };
                    ev.push(Event::Join { tid: 0, target: self.tid_of(cfg, i), panicked: self.w[i].panicked });
                    self.join_err |= bad;
                    if i + 1 < cfg.workers {
                        self.cpc = CPc::Join(i as u8 + 1);
                    } else {
                        self.end_round(cfg);
                    }
                }
                CPc::Finished => {
                    ev.push(Event::Send { chan: 0, tid: 0, ok: true });
                    self.cpc = CPc::Done;
                }
                CPc::Done => return Err("model: collector stepped after it returned".into()),
            }
            return Ok(());
        }
        let i = tid - 1 - self.round as usize * cfg.workers;
        if i >= self.w.len() {
            return Err(format!("model: thread {} does not exist in round {}", tid, self.round));
        }
        let rc = self.results_chan(cfg);
        match self.w[i].pc {
            WPc::Start => self.w[i].pc = WPc::Try,
            WPc::Try => {
                if self.w[i].term_full {
                    self.w[i].term_full = false;
                    ev.push(Event::TryRecv { chan: rc + 1 + i, tid, got: true, disconnected: false });
                    self.die(i, false, false);
                    ev.push(Event::Exit { tid, panicked: false });
                } else {
                    ev.push(Event::TryRecv { chan: rc + 1 + i, tid, got: false, disconnected: false });
                    if matches!(kind, Some(Kind::Panic)) && !cfg.panic_in_decoder {
                        // an earlier stage panics: the decoder (frame counter, yield) is never reached
                        self.die(i, true, true);
                        ev.push(Event::Exit { tid, panicked: true });
                    } else if matches!(kind, Some(Kind::StageErr)) {
                        self.w[i].pc = WPc::Send(Msg::ErrUnit);
                    } else if (self.w[i].frames as usize) >= cfg.budget {
                        self.w[i].frames += 1;
                        self.w[i].pc = WPc::Low;
                    } else {
                        self.w[i].frames += 1;
                        let k = kind.ok_or("model: frame outcome missing")?;
                        self.outcome(cfg, i, k, tid, ev);
                    }
                }
            }
            WPc::Low => {
                let k = kind.ok_or("model: frame outcome missing")?;
                self.outcome(cfg, i, k, tid, ev);
            }
            WPc::Send(m) => {
                self.q.push_back(m);
                ev.push(Event::Send { chan: rc, tid, ok: true });
                if m == Msg::ErrUnit {
                    self.die(i, true, false);
                    ev.push(Event::Exit { tid, panicked: false });
                } else {
                    self.w[i].pc = WPc::Try;
                }
            }
            WPc::Unborn | WPc::Dead(_) => return Err(format!("model: thread {} stepped while not runnable", tid)),
        }
        Ok(())
    }

    fn end_round(&mut self, cfg: &Cfg) {
        if self.join_err {
            self.returned_err = true;
            self.cpc = CPc::Finished;
        } else if (self.round as usize) + 1 < cfg.rounds {
            self.round += 1;
            self.begin_round(cfg);
        } else {
            self.cpc = CPc::Finished;
        }
    }

    /// Exact, injective packing of the state into 192 bits (for the visited set).
    pub fn pack(&self) -> Result<[u64; 3], String> {
        let mut out = [0u64; 3];
        let mut pos = 0usize;
        let mut put = |v: u64, bits: usize| -> Result<(), String> {
            if v >> bits != 0 {
                return Err(format!("model: field value {} does not fit {} bits", v, bits));
            }
            if pos + bits > 192 {
                return Err("model: state does not fit the 192-bit packing".into());
            }
            let (word, off) = (pos / 64, pos % 64);
            out[word] |= v << off;
            if off + bits > 64 {
                out[word + 1] |= v >> (64 - off);
            }
            pos += bits;
            Ok(())
        };
        let (ck, ci) = match self.cpc {
            CPc::Spawn(i) => (0u64, i),
            CPc::Recv => (1, 0),
            CPc::Report => (2, 0),
            CPc::Final => (3, 0),
            CPc::Term(i) => (4, i),
            CPc::Join(i) => (5, i),
            CPc::Finished => (6, 0),
            CPc::Done => (7, 0),
        };
        put(ck, 3)?;
        put(ci as u64, 3)?;
        put(self.round as u64, 2)?;
        put(self.errs as u64, 3)?;
        put(self.join_err as u64, 1)?;
        put(self.returned_err as u64, 1)?;
        put(self.senders as u64, 4)?;
        put(self.at as u64, 5)?;
        put(self.w.len() as u64, 3)?;
        for w in &self.w {
            let pc = match w.pc {
                WPc::Unborn => 0u64,
                WPc::Start => 1,
                WPc::Try => 2,
                WPc::Low => 3,
                WPc::Send(Msg::Good) => 4,
                WPc::Send(Msg::Bad) => 5,
                WPc::Send(Msg::ErrUnit) => 6,
                WPc::Dead(false) => 7,
                WPc::Dead(true) => 8,
            };
            put(pc, 4)?;
            put(w.frames as u64, 4)?;
            put(w.term_full as u64, 1)?;
            put(w.term_rx_alive as u64, 1)?;
            put(w.panicked as u64, 1)?;
        }
        put(self.q.len() as u64, 6)?;
        for m in &self.q {
            put(match m { Msg::Good => 0, Msg::Bad => 1, Msg::ErrUnit => 2 }, 2)?;
        }
        Ok(out)
    }

    pub fn returned(&self) -> Option<bool> {
        if self.cpc == CPc::Done {
            Some(!self.returned_err)
        } else {
            None
        }
    }

    pub fn all_workers_dead(&self) -> bool {
        self.w.iter().all(|w| matches!(w.pc, WPc::Dead(_)))
    }
}

/// Events of the real log that the model also emits.
pub fn project(log: &[Event]) -> Vec<Event> {
    log.iter()
        .filter(|e| matches!(e, Event::Send { .. } | Event::Recv { .. } | Event::TryRecv { .. } | Event::Spawn { .. } | Event::Join { .. } | Event::Exit { .. }))
        .cloned()
        .collect()
}

/// Lock-step replay of one completed real execution through the model.
/// `kind_of(round, worker, frame)` is the scripted outcome. Returns the first disagreement.
pub fn conform(cfg: &Cfg, decisions: &[Decision], log: &[Event], kind_of: &dyn Fn(usize, usize, usize) -> Kind, real_ok: Option<bool>) -> Result<(), String> {
    let mut m = MState::new(cfg);
    let mut ev = Vec::new();
    for (n, d) in decisions.iter().enumerate() {
        let md = m.decision(cfg).map_err(|e| format!("decision {}: {}", n, e))?;
        match md {
            None => return Err(format!("decision {}: the code takes a scheduling decision after the model's collector returned", n)),
            Some((at, at_enabled, enabled)) => {
                if at != d.at || at_enabled != d.at_enabled || enabled != d.enabled {
                    return Err(format!("decision {}: code (at {}, own op enabled {}, enabled {:?}) but model (at {}, own op enabled {}, enabled {:?})", n, d.at, d.at_enabled, d.enabled, at, at_enabled, enabled));
                }
            }
        }
        let tid = d.enabled[d.chosen];
        let kind = m.needs_kind(cfg, tid).map(|(i, f)| kind_of(m.round as usize, i, f));
        m.step(cfg, tid, kind, &mut ev).map_err(|e| format!("decision {}: {}", n, e))?;
    }
    match m.decision(cfg) {
        Ok(None) => {}
        other => return Err(format!("the code's execution ended after {} decisions but the model is at {:?}", decisions.len(), other)),
    }
    if !m.all_workers_dead() && m.returned() == Some(true) {
        return Err("model: collector returned Ok with a live worker".into());
    }
    let real = project(log);
    if real != ev {
        let k = real.iter().zip(ev.iter()).position(|(a, b)| a != b).unwrap_or(real.len().min(ev.len()));
        return Err(format!("operation {}: code performed {:?}, model {:?} (code {} operations, model {})", k, real.get(k), ev.get(k), real.len(), ev.len()));
    }
    if let (Some(r), Some(mm)) = (real_ok, m.returned()) {
        if r != mm {
            return Err(format!("run() returned {} but the model's collector returned {}", if r { "Ok" } else { "Err" }, if mm { "Ok" } else { "Err" }));
        }
    }
    Ok(())
}

#[derive(Default, Debug)]
pub struct ModelStats {
    pub states: u64,
    pub transitions: u64,
    pub terminal_ok: u64,
    pub terminal_err: u64,
    pub max_depth: usize,
    pub complete: bool,
}

/// Exhaustive exploration of the model: every interleaving, every frame outcome from `kinds`
/// (frames at or beyond the budget are forced to count, so that every path is finite).
pub fn explore(cfg: &Cfg, kinds: &[Kind], max_states: u64) -> Result<ModelStats, String> {
    let mut st = ModelStats { complete: true, ..Default::default() };
    let mut seen: HashSet<[u64; 3]> = HashSet::new();
    let init = MState::new(cfg);
    seen.insert(init.pack()?);
    let mut stack: Vec<(MState, usize)> = vec![(init, 0)];
    let mut ev = Vec::new();
    while let Some((s, depth)) = stack.pop() {
        st.states += 1;
        st.max_depth = st.max_depth.max(depth);
        let d = s.decision(cfg).map_err(|e| format!("{} [state {:?}]", e, s))?;
        let Some((_, _, enabled)) = d else {
            // terminal: the collector returned
            if !s.all_workers_dead() {
                return Err(format!("model: collector returned while a worker is alive [state {:?}]", s));
            }
            match s.returned() {
                Some(true) => st.terminal_ok += 1,
                _ => st.terminal_err += 1,
            }
            continue;
        };
        for &tid in &enabled {
            let branches: Vec<Option<Kind>> = match s.needs_kind(cfg, tid) {
                None => vec![None],
                Some((_, f)) => {
                    if f >= cfg.budget {
                        vec![Some(Kind::Bad)]
                    } else {
                        kinds.iter().map(|k| Some(*k)).collect()
                    }
                }
            };
            for k in branches {
                let mut n = s.clone();
                ev.clear();
                n.step(cfg, tid, k, &mut ev)?;
                st.transitions += 1;
                let key = n.pack()?;
                if !seen.contains(&key) {
                    if seen.len() as u64 >= max_states {
                        st.complete = false;
                        continue;
                    }
                    seen.insert(key);
                    stack.push((n, depth + 1));
                }
            }
        }
    }
    Ok(st)
}
