//! C14 — demodulator LLRs are the exact posterior log-ratios of the
//! constellation. E-enum over a stated (sigma x sample) grid and over all bit
//! sequences up to a length bound, against a reference computed from the
//! literal EN 302 307 constellation table by a max-shifted log-sum-exp.

use crate::common::*;
use ldpc_toolbox::gf2::GF2;
use ldpc_toolbox::simulation::modulation::{
    BpskDemodulator, BpskModulator, Demodulator, Modulator, Psk8Demodulator, Psk8Modulator,
};
use ndarray::Array1;
use num_complex::Complex;
use num_traits::{One, Zero};
use serde_json::{json, Value};
use std::f64::consts::PI;

fn gf2(b: u8) -> GF2 {
    if b == 1 {
        GF2::one()
    } else {
        GF2::zero()
    }
}

/// EN 302 307-1 Figure 10 (8PSK), label b0 b1 b2 (b0 first transmitted) -> phase.
pub const PSK8_TABLE: [((u8, u8, u8), f64); 8] = [
    ((0, 0, 0), 0.25),
    ((0, 0, 1), 0.0),
    ((1, 0, 1), 1.75),
    ((1, 1, 1), 1.5),
    ((0, 1, 1), 1.25),
    ((0, 1, 0), 1.0),
    ((1, 1, 0), 0.75),
    ((1, 0, 0), 0.5),
];

pub fn psk8_point(b: (u8, u8, u8)) -> Complex<f64> {
    let ph = PSK8_TABLE.iter().find(|(l, _)| *l == b).unwrap().1 * PI;
    Complex::new(ph.cos(), ph.sin())
}

fn lse(xs: &[f64]) -> f64 {
    let m = xs.iter().cloned().fold(f64::NEG_INFINITY, f64::max);
    m + xs.iter().map(|x| (x - m).exp()).sum::<f64>().ln()
}

/// Reference posterior LLRs of the three bits for received sample r.
pub fn psk8_ref_llr(r: Complex<f64>, sigma: f64) -> [f64; 3] {
    let mut out = [0.0; 3];
    for (bit, o) in out.iter_mut().enumerate() {
        let mut zero = Vec::new();
        let mut one = Vec::new();
        for (l, _) in PSK8_TABLE.iter() {
            let s = psk8_point(*l);
            // -|r-s|^2/(2 sigma^2) = -(|r|^2+|s|^2)/(2 sigma^2) + <r,s>/sigma^2; all points
            // have |s| = 1 (check_table), so the first term is common to numerator and
            // denominator and is dropped by hand: evaluating it would only add
            // cancellation error of size |r-s|^2/sigma^2 * eps to the reference.
            let e = (r.re * s.re + r.im * s.im) / (sigma * sigma);
            let b = [l.0, l.1, l.2][bit];
            if b == 0 {
                zero.push(e)
            } else {
                one.push(e)
            }
        }
        *o = lse(&zero) - lse(&one);
    }
    out
}

pub fn bpsk_ref_llr(r: f64, sigma: f64) -> f64 {
    // P(r | b=0) ~ exp(-(r+1)^2/2s^2), P(r | b=1) ~ exp(-(r-1)^2/2s^2):
    // log-ratio = [-(r+1)^2 + (r-1)^2] / 2s^2 = -2r/s^2 (expanded by hand so
    // that the reference does not cancel catastrophically for tiny r).
    -2.0 * r / (sigma * sigma)
}

fn check_table(acc: &mut Acc) {
    acc.evals += 1;
    acc.nontrivial += 1;
    let key = "psk8:table".to_string();
    let replay = json!({"kind": "table"});
    let m = Psk8Modulator::new();
    let mut pts = Vec::new();
    for (l, _) in PSK8_TABLE.iter() {
        let bits = Array1::from_vec(vec![gf2(l.0), gf2(l.1), gf2(l.2)]);
        match guard(|| m.modulate(&bits)) {
            Ok(v) if v.len() == 1 => {
                let want = psk8_point(*l);
                if (v[0] - want).norm() > 1e-15 {
                    acc.violate(key.clone(), format!("label {:?} maps to {:?}, standard says {:?}", l, v[0], want), replay.clone());
                    return;
                }
                if (v[0].norm() - 1.0).abs() > 1e-15 {
                    acc.violate(key.clone(), format!("label {:?} has energy {}", l, v[0].norm_sqr()), replay.clone());
                    return;
                }
                pts.push((*l, v[0]));
            }
            Ok(v) => {
                acc.violate(key.clone(), format!("3 bits gave {} symbols", v.len()), replay.clone());
                return;
            }
            Err(e) => {
                acc.violate(key.clone(), format!("modulate panicked: {}", e), replay.clone());
                return;
            }
        }
    }
    // Gray property on what the modulator actually emits
    pts.sort_by(|a, b| a.1.arg().partial_cmp(&b.1.arg()).unwrap());
    for i in 0..8 {
        let (a, _) = pts[i];
        let (b, _) = pts[(i + 1) % 8];
        let d = (a.0 ^ b.0) + (a.1 ^ b.1) + (a.2 ^ b.2);
        if d != 1 {
            acc.violate(key.clone(), format!("neighbouring points {:?} and {:?} differ in {} bits", a, b, d), replay.clone());
            return;
        }
    }
    // BPSK mapping
    let bm = BpskModulator::new();
    match guard(|| bm.modulate(&Array1::from_vec(vec![gf2(0), gf2(1)]))) {
        Ok(v) if v == vec![-1.0, 1.0] => {}
        other => acc.violate(key, format!("BPSK mapping {:?}", other), replay),
    }
}

fn tol(value: f64, r_abs: f64, sigma: f64) -> f64 {
    1e-12 * (1.0 + value.abs() + r_abs / (sigma * sigma))
}

fn check_psk8_sample(r: Complex<f64>, sigma: f64, acc: &mut Acc) {
    acc.evals += 1;
    let key = format!("psk8:llr:{:?}:{:?}:{:?}", r.re, r.im, sigma);
    let replay = json!({"kind": "psk8", "re": r.re, "im": r.im, "sigma": sigma});
    let d = Psk8Demodulator::from_noise_sigma(sigma);
    match guard(|| d.demodulate(&[r])) {
        Ok(v) if v.len() == 3 => {
            let want = psk8_ref_llr(r, sigma);
            let mut informative = false;
            for i in 0..3 {
                let t = tol(want[i], r.norm(), sigma);
                if !(v[i] - want[i]).abs().le(&t) {
                    acc.violate(key.clone(), format!("bit {} LLR {:e}, posterior log-ratio {:e} (tol {:e})", i, v[i], want[i], t), replay.clone());
                    return;
                }
                if want[i].abs() > 100.0 * t {
                    informative = true;
                }
            }
            if informative {
                acc.nontrivial += 1;
            }
            acc.sample(|| json!({"r": [r.re, r.im], "sigma": sigma, "llr": v, "reference": want}));
        }
        Ok(v) => acc.violate(key, format!("one symbol gave {} LLRs", v.len()), replay),
        Err(e) => acc.violate(key, format!("demodulate panicked: {}", e), replay),
    }
}

fn check_bpsk_sample(r: f64, sigma: f64, acc: &mut Acc) {
    acc.evals += 1;
    let key = format!("bpsk:llr:{:?}:{:?}", r, sigma);
    let replay = json!({"kind": "bpsk", "r": r, "sigma": sigma});
    let d = BpskDemodulator::from_noise_sigma(sigma);
    match guard(|| d.demodulate(&[r])) {
        Ok(v) if v.len() == 1 => {
            let want = bpsk_ref_llr(r, sigma);
            let t = 4.0 * f64::EPSILON * want.abs() + 1e-300;
            if !(v[0] - want).abs().le(&t) {
                acc.violate(key, format!("LLR {:e}, posterior log-ratio {:e}", v[0], want), replay);
                return;
            }
            if r != 0.0 {
                acc.nontrivial += 1;
            }
        }
        Ok(v) => acc.violate(key, format!("one symbol gave {} LLRs", v.len()), replay),
        Err(e) => acc.violate(key, format!("demodulate panicked: {}", e), replay),
    }
}

/// Hard decisions on the noiseless modulated sequence return the bits.
fn check_sequence(len: usize, word: u32, sigma: f64, acc: &mut Acc) {
    acc.evals += 1;
    acc.nontrivial += 1;
    let key = format!("seq:len{}:{:b}:{:?}", len, word, sigma);
    let replay = json!({"kind": "seq", "len": len, "word": word, "sigma": sigma});
    // up to 32 bits the word is the sequence; longer sequences are a fixed pseudo-random expansion of it
    let bits: Vec<u8> = if len <= 32 {
        (0..len).map(|i| ((word >> i) & 1) as u8).collect()
    } else {
        let mut x = 0x9E37_79B9_7F4A_7C15u64 ^ u64::from(word);
        (0..len)
            .map(|_| {
                x ^= x << 13;
                x ^= x >> 7;
                x ^= x << 17;
                (x >> 33 & 1) as u8
            })
            .collect()
    };
    let arr = Array1::from_iter(bits.iter().map(|&b| gf2(b)));
    // the same bit sequence presented as a reversed view (stride -1) and as a stride-2 view must
    // modulate to the same symbols as the owned standard-layout array
    {
        use ndarray::s;
        let rev = Array1::from_iter(bits.iter().rev().map(|&b| gf2(b)));
        let wide = Array1::from_iter((0..2 * len).map(|i| if i % 2 == 0 { gf2(bits[i / 2]) } else { gf2(1 - bits[i / 2]) }));
        let views = guard(|| {
            let b0 = BpskModulator::new().modulate(&arr);
            let b1 = BpskModulator::new().modulate(&rev.slice(s![..;-1]));
            let b2 = BpskModulator::new().modulate(&wide.slice(s![..;2]));
            let p = if len % 3 == 0 {
                Some((Psk8Modulator::new().modulate(&arr), Psk8Modulator::new().modulate(&rev.slice(s![..;-1])), Psk8Modulator::new().modulate(&wide.slice(s![..;2]))))
            } else {
                None
            };
            (b0, b1, b2, p)
        });
        match views {
            Err(e) => {
                acc.violate(key.clone(), format!("modulate on a view panicked: {}", e), replay.clone());
                return;
            }
            Ok((b0, b1, b2, p)) => {
                if b0 != b1 || b0 != b2 {
                    acc.violate(key.clone(), "BPSK: a reversed / strided view of the same bits modulates differently".into(), replay.clone());
                    return;
                }
                if let Some((p0, p1, p2)) = p {
                    if p0 != p1 || p0 != p2 {
                        acc.violate(key.clone(), format!("8PSK: a reversed / strided view of the bits {:?} modulates to different symbols than the owned array", bits), replay.clone());
                        return;
                    }
                }
            }
        }
    }
    let r = guard(|| {
        let b = BpskDemodulator::from_noise_sigma(sigma).demodulate(&BpskModulator::new().modulate(&arr));
        let p = if len % 3 == 0 {
            Some(Psk8Demodulator::from_noise_sigma(sigma).demodulate(&Psk8Modulator::new().modulate(&arr)))
        } else {
            None
        };
        (b, p)
    });
    match r {
        Ok((b, p)) => {
            let hd = |v: &Vec<f64>| v.iter().map(|&x| u8::from(x <= 0.0)).collect::<Vec<u8>>();
            if b.len() != len || hd(&b) != bits {
                acc.violate(key.clone(), format!("BPSK hard decisions {:?} for bits {:?}", hd(&b), bits), replay.clone());
                return;
            }
            if b.iter().any(|x| *x == 0.0 || !x.is_finite()) {
                acc.violate(key.clone(), "BPSK noiseless LLR is zero or not finite".into(), replay.clone());
                return;
            }
            // soft values at every position of the sequence (not only of a one-symbol call)
            for (i, x) in b.iter().enumerate() {
                let want = bpsk_ref_llr(if bits[i] == 1 { 1.0 } else { -1.0 }, sigma);
                let t = 4.0 * f64::EPSILON * want.abs() + 1e-300;
                if !(x - want).abs().le(&t) {
                    acc.violate(key.clone(), format!("BPSK LLR at position {} of {} is {:e}, posterior log-ratio {:e}", i, len, x, want), replay.clone());
                    return;
                }
            }
            if let Some(p) = p {
                if p.len() != len || hd(&p) != bits {
                    acc.violate(key.clone(), format!("8PSK hard decisions {:?} for bits {:?}", hd(&p), bits), replay.clone());
                    return;
                }
                // symbol order and in-symbol bit order against the literal table
                let syms = Psk8Modulator::new().modulate(&arr);
                for (k, s) in syms.iter().enumerate() {
                    let want = psk8_point((bits[3 * k], bits[3 * k + 1], bits[3 * k + 2]));
                    if (s - want).norm() > 1e-15 {
                        acc.violate(key, format!("symbol {} is {:?}, table says {:?}", k, s, want), replay);
                        return;
                    }
                    let wl = psk8_ref_llr(want, sigma);
                    for b3 in 0..3 {
                        let t = tol(wl[b3], 1.0, sigma);
                        if !(p[3 * k + b3] - wl[b3]).abs().le(&t) {
                            acc.violate(key, format!("8PSK LLR at position {} of {} is {:e}, posterior log-ratio {:e}", 3 * k + b3, len, p[3 * k + b3], wl[b3]), replay);
                            return;
                        }
                    }
                }
            }
        }
        Err(e) => acc.violate(key, format!("panicked: {}", e), replay),
    }
}

fn replay_element(v: &Value, acc: &mut Acc) {
    let f = |k: &str| v[k].as_f64().unwrap_or(0.0);
    match v["kind"].as_str() {
        Some("table") => check_table(acc),
        Some("psk8") => check_psk8_sample(Complex::new(f("re"), f("im")), f("sigma"), acc),
        Some("bpsk") => check_bpsk_sample(f("r"), f("sigma"), acc),
        Some("seq") => check_sequence(v["len"].as_u64().unwrap() as usize, v["word"].as_u64().unwrap() as u32, f("sigma"), acc),
        _ => machinery("C14: unknown replay element"),
    }
}

pub fn run(run: &Run) -> i32 {
    let mut acc = Acc::new();
    if let Some(p) = &run.replay {
        let v: Value = serde_json::from_str(&std::fs::read_to_string(p).unwrap_or_else(|_| machinery("cannot read replay"))).unwrap_or_else(|_| machinery("bad replay json"));
        replay_element(&v["element"], &mut acc);
    } else {
        let sigmas = [1e-3, 0.05, 0.3, std::f64::consts::FRAC_1_SQRT_2, 1.0, 2.5, 40.0, 1e3];
        let mut items = vec![json!({"kind": "table"})];
        let g = if run.thorough() { 121 } else { 41 };
        let mut pts: Vec<(f64, f64)> = Vec::new();
        for i in 0..g {
            for j in 0..g {
                pts.push((-3.0 + 6.0 * i as f64 / (g - 1) as f64, -3.0 + 6.0 * j as f64 / (g - 1) as f64));
            }
        }
        for k in 0..16 {
            // constellation points, decision-boundary midpoints, and boundary rays at radius 0.5 / 2
            let ph = k as f64 * PI / 8.0;
            pts.push((ph.cos(), ph.sin()));
            pts.push((0.5 * ph.cos(), 0.5 * ph.sin()));
            pts.push((2.0 * ph.cos(), 2.0 * ph.sin()));
        }
        pts.push((0.0, 0.0));
        pts.push((1e-9, -1e-9));
        pts.push((250.0, -130.0));
        for &s in &sigmas {
            for &(re, im) in &pts {
                // keep r/sigma^2 inside the floating range the property speaks of
                if (re.abs() + im.abs()) / (s * s) < 1e12 {
                    items.push(json!({"kind": "psk8", "re": re, "im": im, "sigma": s}));
                }
            }
            for &r in &[0.0, 1e-6, -1e-6, 0.5, -0.5, 1.0, -1.0, 1.5, -1.5, 7.0, -7.0, 1e3, -1e3, 0.3333333333333333, -2.718281828] {
                items.push(json!({"kind": "bpsk", "r": r, "sigma": s}));
            }
        }
        let maxlen = if run.thorough() { 15 } else { 9 };
        for len in 1..=maxlen {
            for w in 0u32..(1 << len) {
                for &s in &[0.05, 1.0, 40.0] {
                    items.push(json!({"kind": "seq", "len": len, "word": w, "sigma": s}));
                }
            }
        }
        // long sequences (lengths around 64, 4096, 65536 symbols / bits): fixed pseudo-random bit patterns
        for len in if run.thorough() { vec![33usize, 63, 66, 129, 192, 195, 258, 513, 1026, 2049, 4095, 4097, 4098, 8193, 12288, 12291, 16386, 32769, 49155, 65538, 131073, 196611] } else { vec![33usize, 66, 129, 195, 258, 513, 1026, 2049, 4097, 4098, 8193, 12291, 16386, 32769, 49155, 65538] } {
            for w in [1u32, 2] {
                for s in [0.05, 1.0] {
                    items.push(json!({"kind": "seq", "len": len, "word": w, "sigma": s}));
                }
            }
        }
        acc = par_items(&items, |it, a| replay_element(it, a));
    }
    finish(
        run,
        acc,
        Coverage {
            rule: "sigma in {1e-3,0.05,0.3,0.7071,1,2.5,40,1e3} x 8PSK samples on a square grid over [-3,3]^2 plus constellation points, decision-boundary midpoints, boundary rays at radius 0.5 and 2, origin, a far point; BPSK samples on a 15-value list; every bit sequence up to the length bound (both modulations, three sigmas; each also as a reversed and as a stride-2 array view), plus fixed pseudo-random sequences of 33..65538 bits at every power of two plus one or two (thorough: 196611); the constellation table itself. Non-trivial = the reference log-ratio exceeds 100x the comparison tolerance in at least one bit (so the comparison is informative).".into(),
            exhaustive: true,
            extra: serde_json::Map::new(),
            graph: None,
            assumptions: vec![
                "real-valued domain: exhaustive over the stated grid only; values between grid points are not claimed".into(),
                "reference: exponent -|r-s|^2/(2 sigma^2) per constellation point from the literal EN 302 307-1 Figure 10 table, max-shifted log-sum-exp in f64; tolerance 1e-12*(1+|value|+|r|/sigma^2)".into(),
            ],
        },
    )
}
