//! C15 — interleaving and puncturing are exact, invertible re-orderings.
//! E-enum: every (C, R, backward) shape up to the bound on all-distinct
//! vectors of four element types; every puncturing pattern up to length 7 x
//! block sizes; every indivisible length.

use crate::common::*;
use ldpc_toolbox::gf2::GF2;
use ldpc_toolbox::simulation::interleaving::Interleaver;
use ldpc_toolbox::simulation::puncturing::Puncturer;
use ndarray::Array1;
use num_traits::{One, Zero};
use serde_json::{json, Value};

fn gf2(b: bool) -> GF2 {
    if b {
        GF2::one()
    } else {
        GF2::zero()
    }
}

fn ref_interleave_index(c_cols: usize, rows: usize, backward: bool, out_idx: usize) -> usize {
    let r = out_idx / c_cols;
    let c = out_idx % c_cols;
    let cc = if backward { c_cols - 1 - c } else { c };
    cc * rows + r
}

fn check_interleave(cols: usize, rows: usize, backward: bool, acc: &mut Acc) {
    let len = cols * rows;
    let key = format!("interleave:C{}:R{}:b{}", cols, rows, backward as u8);
    let replay = json!({"kind": "interleave", "C": cols, "R": rows, "backward": backward});
    let perm: Vec<usize> = (0..len)
        .map(|o| ref_interleave_index(cols, rows, backward, o))
        .collect();
    let il = Interleaver::new(cols, backward);
    acc.evals += 1;
    if cols > 1 && rows > 1 {
        acc.nontrivial += 1;
    }
    if cols != rows && cols > 1 && rows > 1 {
        acc.count("nonsquare_shapes");
    }
    acc.outcome(&perm);
    // i32, identity-valued
    let x: Vec<i32> = (0..len as i32).collect();
    let want: Vec<i32> = perm.iter().map(|&i| x[i]).collect();
    // array views with stride -1 and stride 2 are the same vector
    {
        use ndarray::s;
        let rev = Array1::from_iter(x.iter().rev().cloned());
        let wide = Array1::from_iter((0..2 * len as i32).map(|i| if i % 2 == 0 { i / 2 } else { -7 }));
        match guard(|| (il.interleave(&rev.slice(s![..;-1])).to_vec(), il.interleave(&wide.slice(s![..;2])).to_vec())) {
            Ok((a, b)) if a == want && b == want => {}
            Ok(_) => {
                acc.violate(key.clone(), "interleave of a reversed / strided view differs from interleave of the owned vector".into(), replay.clone());
                return;
            }
            Err(p) => {
                acc.violate(key.clone(), format!("interleave of a view panicked: {}", p), replay.clone());
                return;
            }
        }
    }
    match guard(|| il.interleave(&Array1::from_vec(x.clone())).to_vec()) {
        Ok(got) if got == want => {}
        Ok(got) => {
            acc.violate(key.clone(), format!("interleave i32 got {:?} want {:?}", got, want), replay.clone());
            return;
        }
        Err(p) => {
            acc.violate(key.clone(), format!("interleave panicked: {}", p), replay.clone());
            return;
        }
    }
    // deinterleave is the inverse permutation
    match guard(|| il.deinterleave(&want)) {
        Ok(got) if got == x => {}
        Ok(got) => {
            acc.violate(key.clone(), format!("deinterleave(interleave(x)) = {:?} != x", got), replay.clone());
            return;
        }
        Err(p) => {
            acc.violate(key.clone(), format!("deinterleave panicked: {}", p), replay.clone());
            return;
        }
    }
    // deinterleave as a direct formula on an arbitrary vector, then interleave back
    let y: Vec<i32> = (0..len as i32).map(|v| 1000 - 7 * v).collect();
    let mut want_d = vec![0i32; len];
    for (o, &i) in perm.iter().enumerate() {
        want_d[i] = y[o];
    }
    match guard(|| {
        let d = il.deinterleave(&y);
        let back = il.interleave(&Array1::from_vec(d.clone())).to_vec();
        (d, back)
    }) {
        Ok((d, back)) => {
            if d != want_d {
                acc.violate(key.clone(), format!("deinterleave got {:?} want {:?}", d, want_d), replay.clone());
                return;
            }
            if back != y {
                acc.violate(key.clone(), "interleave(deinterleave(y)) != y".into(), replay.clone());
                return;
            }
        }
        Err(p) => {
            acc.violate(key.clone(), format!("deinterleave panicked: {}", p), replay.clone());
            return;
        }
    }
    // f64 and u8
    let xf: Vec<f64> = (0..len).map(|v| v as f64 * 0.5 - 3.25).collect();
    let wantf: Vec<f64> = perm.iter().map(|&i| xf[i]).collect();
    let xu: Vec<u8> = (0..len).map(|v| v as u8).collect();
    let wantu: Vec<u8> = perm.iter().map(|&i| xu[i]).collect();
    match guard(|| {
        (
            il.interleave(&Array1::from_vec(xf.clone())).to_vec(),
            il.deinterleave(&wantf),
            il.interleave(&Array1::from_vec(xu.clone())).to_vec(),
            il.deinterleave(&wantu),
        )
    }) {
        Ok((a, b, c, d)) => {
            if a != wantf || b != xf || c != wantu || d != xu {
                acc.violate(key.clone(), "f64/u8 interleave or deinterleave differs from the permutation".into(), replay.clone());
                return;
            }
        }
        Err(p) => {
            acc.violate(key.clone(), format!("f64/u8 panicked: {}", p), replay.clone());
            return;
        }
    }
    // GF2: one bit-plane of the index per pass, so the whole permutation is observed
    let planes = (usize::BITS - len.leading_zeros()) as usize;
    for p in 0..planes.max(1) {
        let xb: Vec<GF2> = (0..len).map(|v| gf2((v >> p) & 1 == 1)).collect();
        let wantb: Vec<GF2> = perm.iter().map(|&i| xb[i]).collect();
        match guard(|| {
            (
                il.interleave(&Array1::from_vec(xb.clone())).to_vec(),
                il.deinterleave(&wantb),
            )
        }) {
            Ok((a, b)) => {
                if a != wantb || b != xb {
                    acc.violate(key.clone(), format!("GF2 bit-plane {} differs from the permutation", p), replay.clone());
                    return;
                }
            }
            Err(pn) => {
                acc.violate(key.clone(), format!("GF2 panicked: {}", pn), replay.clone());
                return;
            }
        }
    }
    acc.sample(|| json!({"C": cols, "R": rows, "backward": backward, "permutation": perm}));
}

fn pattern_from_bits(len: usize, bits: u32) -> Vec<bool> {
    (0..len).map(|i| (bits >> i) & 1 == 1).collect()
}

fn check_puncture(plen: usize, bits: u32, block: usize, acc: &mut Acc) {
    let pattern = pattern_from_bits(plen, bits);
    let trues = pattern.iter().filter(|&&b| b).count();
    let key = format!("puncture:p{}:{:b}:b{}", plen, bits, block);
    let replay = json!({"kind": "puncture", "plen": plen, "bits": bits, "block": block});
    acc.evals += 1;
    if trues < plen && plen > 1 {
        acc.nontrivial += 1;
    }
    let n = plen * block;
    let p = match guard(|| Puncturer::new(&pattern)) {
        Ok(p) => p,
        Err(e) => {
            acc.violate(key, format!("Puncturer::new panicked: {}", e), replay);
            return;
        }
    };
    let x: Vec<i32> = (0..n as i32).map(|v| v + 1).collect();
    let mut want = Vec::new();
    for (k, &keep) in pattern.iter().enumerate() {
        if keep {
            want.extend_from_slice(&x[k * block..(k + 1) * block]);
        }
    }
    let mut want_dep = vec![0i32; n];
    {
        let mut j = 0;
        for (k, &keep) in pattern.iter().enumerate() {
            if keep {
                want_dep[k * block..(k + 1) * block].copy_from_slice(&want[j * block..(j + 1) * block]);
                j += 1;
            }
        }
    }
    {
        use ndarray::s;
        let rev = Array1::from_iter(x.iter().rev().cloned());
        let wide = Array1::from_iter((0..2 * n as i32).map(|i| if i % 2 == 0 { i / 2 + 1 } else { -9 }));
        match guard(|| (p.puncture(&rev.slice(s![..;-1])).map(|a| a.to_vec()), p.puncture(&wide.slice(s![..;2])).map(|a| a.to_vec()))) {
            Ok((Ok(a), Ok(b))) if a == want && b == want => {}
            other => {
                acc.violate(key.clone(), format!("puncture of a reversed / strided view gives {:?}, want {:?}", other, want), replay.clone());
                return;
            }
        }
    }
    match guard(|| {
        let a = p.puncture(&Array1::from_vec(x.clone())).map(|a| a.to_vec());
        let d = p.depuncture(&want);
        (a, d, p.rate())
    }) {
        Ok((a, d, rate)) => {
            if a.as_ref().ok() != Some(&want) {
                acc.violate(key.clone(), format!("puncture got {:?} want {:?}", a, want), replay.clone());
                return;
            }
            if d.as_ref().ok() != Some(&want_dep) {
                acc.violate(key.clone(), format!("depuncture got {:?} want {:?}", d, want_dep), replay.clone());
                return;
            }
            let want_rate = plen as f64 / trues as f64;
            if rate != want_rate {
                acc.violate(key.clone(), format!("rate {} want {}", rate, want_rate), replay.clone());
                return;
            }
        }
        Err(e) => {
            acc.violate(key.clone(), format!("panicked: {}", e), replay.clone());
            return;
        }
    }
    // f64: removed blocks must be exactly +0.0; GF2 puncture
    let xf: Vec<f64> = want.iter().map(|&v| -(v as f64) * 1.5).collect();
    let xb: Vec<GF2> = (0..n).map(|v| gf2(v % 3 == 0 || v % 5 == 1)).collect();
    match guard(|| {
        (
            p.depuncture(&xf),
            p.puncture(&Array1::from_vec(xb.clone())).map(|a| a.to_vec()),
        )
    }) {
        Ok((d, b)) => {
            let d = match d {
                Ok(d) => d,
                Err(e) => {
                    acc.violate(key.clone(), format!("depuncture f64 error {:?}", e), replay.clone());
                    return;
                }
            };
            let mut j = 0;
            for (k, &keep) in pattern.iter().enumerate() {
                for t in 0..block {
                    let v = d[k * block + t];
                    let ok = if keep {
                        v.to_bits() == xf[j * block + t].to_bits()
                    } else {
                        v.to_bits() == 0.0f64.to_bits()
                    };
                    if !ok {
                        acc.violate(key.clone(), format!("depuncture f64 position {} = {:?}", k * block + t, v), replay.clone());
                        return;
                    }
                }
                if keep {
                    j += 1;
                }
            }
            let mut wantb = Vec::new();
            for (k, &keep) in pattern.iter().enumerate() {
                if keep {
                    wantb.extend_from_slice(&xb[k * block..(k + 1) * block]);
                }
            }
            if b.as_ref().ok() != Some(&wantb) {
                acc.violate(key.clone(), "GF2 puncture differs".into(), replay.clone());
                return;
            }
        }
        Err(e) => {
            acc.violate(key.clone(), format!("panicked: {}", e), replay.clone());
            return;
        }
    }
    acc.sample(|| json!({"pattern": pattern, "block": block, "punctured": want}));
}

fn check_indivisible(plen: usize, bits: u32, len: usize, acc: &mut Acc) {
    let pattern = pattern_from_bits(plen, bits);
    let trues = pattern.iter().filter(|&&b| b).count();
    let key = format!("indivisible:p{}:{:b}:len{}", plen, bits, len);
    let replay = json!({"kind": "indivisible", "plen": plen, "bits": bits, "len": len});
    acc.evals += 1;
    let p = Puncturer::new(&pattern);
    let x: Vec<i32> = (0..len as i32).collect();
    let r = guard(|| {
        (
            p.puncture(&Array1::from_vec(x.clone())).map(|a| a.to_vec()),
            p.depuncture(&x),
        )
    });
    match r {
        Err(e) => acc.violate(key, format!("panicked: {}", e), replay),
        Ok((a, d)) => {
            if len % plen != 0 {
                acc.nontrivial += 1;
                if a.is_ok() {
                    acc.violate(key.clone(), format!("puncture of length {} with pattern length {} returned {:?}", len, plen, a), replay.clone());
                }
            } else if a.map(|v| v.len()).ok() != Some(len / plen * trues) {
                acc.violate(key.clone(), "puncture of divisible length has wrong size".into(), replay.clone());
            }
            if len % trues != 0 {
                if d.is_ok() {
                    acc.violate(key.clone(), format!("depuncture of length {} with {} kept blocks returned {:?}", len, trues, d), replay.clone());
                }
            } else if d.map(|v| v.len()).ok() != Some(len / trues * plen) {
                acc.violate(key, "depuncture of divisible length has wrong size".into(), replay);
            }
        }
    }
}

fn replay_element(v: &Value, acc: &mut Acc) {
    let u = |k: &str| v[k].as_u64().unwrap_or(0) as usize;
    match v["kind"].as_str() {
        Some("interleave") => check_interleave(u("C"), u("R"), v["backward"].as_bool().unwrap_or(false), acc),
        Some("puncture") => check_puncture(u("plen"), u("bits") as u32, u("block"), acc),
        Some("indivisible") => check_indivisible(u("plen"), u("bits") as u32, u("len"), acc),
        _ => machinery("C15: unknown replay element"),
    }
}

pub fn run(run: &Run) -> i32 {
    let mut acc = Acc::new();
    if let Some(p) = &run.replay {
        let v: Value = serde_json::from_str(&std::fs::read_to_string(p).unwrap_or_else(|_| machinery("cannot read replay"))).unwrap_or_else(|_| machinery("bad replay json"));
        replay_element(&v["element"], &mut acc);
    } else {
        let maxdim = if run.thorough() { 12 } else { 7 };
        let maxp = if run.thorough() { 9 } else { 7 };
        let maxblock = if run.thorough() { 6 } else { 4 };
        let mut items: Vec<Value> = Vec::new();
        for c in 1..=maxdim {
            for r in 1..=maxdim {
                for b in [false, true] {
                    items.push(json!({"kind": "interleave", "C": c, "R": r, "backward": b}));
                }
            }
        }
        for plen in 1..=maxp {
            for bits in 1u32..(1 << plen) {
                for block in 1..=maxblock {
                    items.push(json!({"kind": "puncture", "plen": plen, "bits": bits, "block": block}));
                }
                for len in 1..=30 {
                    items.push(json!({"kind": "indivisible", "plen": plen, "bits": bits, "len": len}));
                }
            }
        }
        // sizes around the usual chunk sizes (64, 256, 4096, 8192, 65536 elements)
        let mut big: Vec<(usize, usize)> = vec![(1, 4099), (4099, 1), (3, 2731), (2731, 3), (8, 8192), (64, 64), (63, 65), (360, 45), (5, 13107), (255, 257)];
        if run.thorough() {
            big.extend([(1, 70001), (70001, 1), (16, 4097), (257, 255), (2, 32769)]);
        }
        for (c, r) in big {
            for b in [false, true] {
                items.push(json!({"kind": "interleave", "C": c, "R": r, "backward": b}));
            }
        }
        for (plen, bits) in [(1usize, 1u32), (2, 1), (2, 2), (3, 3), (4, 13), (5, 15), (5, 30)] {
            for block in if run.thorough() { vec![63usize, 64, 65, 4095, 4096, 4097, 65537] } else { vec![64usize, 4097, 8193] } {
                items.push(json!({"kind": "puncture", "plen": plen, "bits": bits, "block": block}));
            }
        }
        // rates that are inexact in binary: (pattern length, kept blocks, block size) sweeps in which a
        // product or quotient of the rate can land one ulp below an integer
        for plen in if run.thorough() { (7..=24usize).collect::<Vec<_>>() } else { (7..=16usize).collect::<Vec<_>>() } {
            for t in 1..=plen {
                let first: u32 = (1u32 << t) - 1;
                for bits in [first, first << (plen - t)] {
                    for block in [1usize, 2, 3, 4, 5, 7, 9, 12, 16, 17, 31, 33, 63, 64, 65, 100, 127, 129, 255, 257] {
                        items.push(json!({"kind": "puncture", "plen": plen, "bits": bits, "block": block}));
                    }
                }
            }
        }
        items.sort_by_key(|v| v.to_string());
        items.dedup();
        acc = par_items(&items, |it, a| replay_element(it, a));
    }
    finish(
        run,
        acc,
        Coverage {
            rule: "every (columns C, rows R, backward) with C,R <= bound on identity-valued vectors of i32/f64/u8 and all GF2 bit-planes; every boolean pattern (>=1 true) up to the length bound x every block size; every length 1..30 for the error clause; plus patterns of 7..16 (24) blocks keeping the first / last t blocks for every t x 20 block sizes (rates inexact in binary); plus interleaver shapes and puncturing block sizes around 64, 256, 4096, 8192 (thorough: 65536) elements. Enumeration is a duplicate-free product; non-trivial = C>1 and R>1 (interleaver), pattern that really removes a block (puncturer), genuinely indivisible length (error clause).".into(),
            exhaustive: true,
            extra: serde_json::Map::new(),
            graph: None,
            assumptions: vec![
                "lengths not divisible by the interleaver column count are a documented panic (assert) and are outside the property's precondition".into(),
                "element types exercised: i32, f64, u8, GF2; genericity over other element types relies on the code being parametric".into(),
            ],
        },
    )
}
