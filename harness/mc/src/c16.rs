//! C16 — pseudorandom constructions honour their configuration and are
//! reproducible. E-enum over a configuration grid x a window of consecutive
//! seeds; PEG edge rule replayed against the harness's own BFS; seed search
//! checked against the exhaustively computed per-seed outcome set.

use crate::common::*;
use crate::mats::RefGraph;
use ldpc_toolbox::mackay_neal::{Config as MnConfig, FillPolicy};
use ldpc_toolbox::peg::Config as PegConfig;
use ldpc_toolbox::sparse::SparseMatrix;
use serde_json::{json, Value};
use std::collections::BTreeSet;

fn ones(h: &SparseMatrix) -> Vec<(usize, usize)> {
    let mut v: Vec<(usize, usize)> = h.iter_all().collect();
    v.sort_unstable();
    v
}

fn mn_key(c: &MnConfig) -> String {
    format!("mn:{}x{}:wr{}:wc{}:bt{}/{}:g{:?}/{}:{:?}", c.nrows, c.ncols, c.wr, c.wc, c.backtrack_cols, c.backtrack_trials, c.min_girth, c.girth_trials, c.fill_policy)
}

fn mn_json(c: &MnConfig) -> Value {
    json!({"nrows": c.nrows, "ncols": c.ncols, "wr": c.wr, "wc": c.wc, "backtrack_cols": c.backtrack_cols, "backtrack_trials": c.backtrack_trials, "min_girth": c.min_girth, "girth_trials": c.girth_trials, "uniform": c.fill_policy == FillPolicy::Uniform})
}

fn mn_from_json(v: &Value) -> MnConfig {
    MnConfig {
        nrows: v["nrows"].as_u64().unwrap() as usize,
        ncols: v["ncols"].as_u64().unwrap() as usize,
        wr: v["wr"].as_u64().unwrap() as usize,
        wc: v["wc"].as_u64().unwrap() as usize,
        backtrack_cols: v["backtrack_cols"].as_u64().unwrap() as usize,
        backtrack_trials: v["backtrack_trials"].as_u64().unwrap() as usize,
        min_girth: v["min_girth"].as_u64().map(|x| x as usize),
        girth_trials: v["girth_trials"].as_u64().unwrap() as usize,
        fill_policy: if v["uniform"].as_bool().unwrap() { FillPolicy::Uniform } else { FillPolicy::Random },
    }
}

/// Checks one MacKay-Neal result; returns the matrix entries when Ok.
fn check_mn_run(c: &MnConfig, seed: u64, acc: &mut Acc) -> Option<Option<Vec<(usize, usize)>>> {
    acc.evals += 1;
    let key = format!("{}:seed{}", mn_key(c), seed);
    let replay = json!({"kind": "mn", "config": mn_json(c), "seed": seed});
    let r1 = guard(|| c.run(seed));
    let r2 = guard(|| c.run(seed));
    match (r1, r2) {
        (Err(e), _) | (_, Err(e)) => {
            acc.violate(key, format!("run panicked: {}", e), replay);
            None
        }
        (Ok(a), Ok(b)) => {
            match (&a, &b) {
                (Ok(x), Ok(y)) if x == y => {}
                (Err(x), Err(y)) if x == y => {}
                _ => {
                    acc.violate(key, "two runs with the same configuration and seed gave different results".into(), replay);
                    return None;
                }
            }
            match a {
                Err(_) => {
                    acc.count("mn_err");
                    Some(None)
                }
                Ok(h) => {
                    acc.count("mn_ok");
                    acc.nontrivial += 1;
                    if h.num_rows() != c.nrows || h.num_cols() != c.ncols {
                        acc.violate(key, format!("result is {}x{}", h.num_rows(), h.num_cols()), replay);
                        return None;
                    }
                    for j in 0..c.ncols {
                        if h.col_weight(j) != c.wc {
                            acc.violate(key, format!("column {} has weight {}, requested {}", j, h.col_weight(j), c.wc), replay);
                            return None;
                        }
                    }
                    let rw: Vec<usize> = (0..c.nrows).map(|i| h.row_weight(i)).collect();
                    if let Some(&mx) = rw.iter().max() {
                        if mx > c.wr {
                            acc.violate(key, format!("row weights {:?} exceed the maximum {}", rw, c.wr), replay);
                            return None;
                        }
                        if c.fill_policy == FillPolicy::Uniform && c.min_girth.is_none() && mx - rw.iter().min().unwrap() > 1 {
                            acc.violate(key, format!("uniform policy: row weights {:?} differ by more than one", rw), replay);
                            return None;
                        }
                    }
                    if let Some(g) = c.min_girth {
                        if let Some(actual) = RefGraph::from_sparse(&h).girth() {
                            if actual < g {
                                acc.violate(key, format!("girth {} < requested minimum {}", actual, g), replay);
                                return None;
                            }
                        }
                    }
                    Some(Some(ones(&h)))
                }
            }
        }
    }
}

fn mn_configs(thorough: bool) -> Vec<MnConfig> {
    let (rmax, cmax) = if thorough { (8, 14) } else { (6, 10) };
    let mut v = Vec::new();
    for nrows in 2..=rmax {
        for ncols in 2..=cmax {
            for wc in 1..=3usize {
                let base = (ncols * wc).div_ceil(nrows);
                let mut wrs = vec![base, base + 1, ncols];
                wrs.dedup();
                for wr in wrs {
                    for fill_policy in [FillPolicy::Random, FillPolicy::Uniform] {
                        let mut girths: Vec<(Option<usize>, usize)> = vec![(None, 0)];
                        for g in [3usize, 4, 5, 6, 7, 8] {
                            for t in if g % 2 == 0 { vec![0usize, 5, 50] } else { vec![5usize] } {
                                girths.push((Some(g), t));
                            }
                        }
                        for (min_girth, girth_trials) in girths {
                            for (backtrack_cols, backtrack_trials) in [(0usize, 0usize), (1, 3), (2, 10)] {
                                v.push(MnConfig { nrows, ncols, wr, wc, backtrack_cols, backtrack_trials, min_girth, girth_trials, fill_policy });
                            }
                        }
                    }
                }
            }
        }
    }
    // dimensions just past 16, 32, 64, 128, 256 (thorough 1024), column weights 3..5 (and 9, 17)
    let big: Vec<(usize, usize)> = if thorough {
        vec![(17, 3), (33, 2), (64, 1), (65, 3), (129, 2), (257, 3), (1025, 2), (3, 65), (4, 257), (70, 140)]
    } else {
        vec![(17, 3), (33, 2), (64, 1), (65, 3), (129, 2), (257, 3), (3, 65), (70, 140)]
    };
    for (nrows, ncols) in big {
        for wc in [3usize, 4, 5, 9, 17] {
            if wc > nrows {
                continue;
            }
            let wr = ((ncols * wc).div_ceil(nrows) + 1).max(2);
            for fill_policy in [FillPolicy::Random, FillPolicy::Uniform] {
                for (min_girth, girth_trials) in [(None, 0usize), (Some(6), 5)] {
                    v.push(MnConfig { nrows, ncols, wr, wc, backtrack_cols: 1, backtrack_trials: 3, min_girth, girth_trials, fill_policy });
                }
            }
        }
    }
    v
}

// ------------------------------------------------------------------ PEG

fn check_peg(nrows: usize, ncols: usize, wc: usize, seed: u64, acc: &mut Acc) -> Option<Vec<(usize, usize)>> {
    acc.evals += 1;
    let c = PegConfig { nrows, ncols, wc };
    let key = format!("peg:{}x{}:wc{}:seed{}", nrows, ncols, wc, seed);
    let replay = json!({"kind": "peg", "nrows": nrows, "ncols": ncols, "wc": wc, "seed": seed});
    let r1 = guard(|| c.run(seed));
    let r2 = guard(|| c.run(seed));
    let h = match (r1, r2) {
        (Err(e), _) | (_, Err(e)) => {
            acc.violate(key, format!("run panicked: {}", e), replay);
            return None;
        }
        (Ok(Ok(a)), Ok(Ok(b))) => {
            if a != b {
                acc.violate(key, "two runs with the same configuration and seed gave different results".into(), replay);
                return None;
            }
            a
        }
        (Ok(Err(a)), Ok(Err(b))) if a == b => {
            acc.count("peg_err");
            return None;
        }
        _ => {
            acc.violate(key, "two runs with the same configuration and seed disagree on success".into(), replay);
            return None;
        }
    };
    acc.nontrivial += 1;
    acc.count("peg_ok");
    if h.num_rows() != nrows || h.num_cols() != ncols {
        acc.violate(key, format!("result is {}x{}", h.num_rows(), h.num_cols()), replay);
        return None;
    }
    let want_w = wc.min(nrows);
    // replay the construction: columns in order, edges in the order the column iterator yields them
    let mut partial = SparseMatrix::new(nrows, ncols);
    for col in 0..ncols {
        let edges: Vec<usize> = h.iter_col(col).cloned().collect();
        if edges.len() != want_w {
            acc.violate(key, format!("column {} has weight {}, expected min(wc, rows) = {}", col, edges.len(), want_w), replay);
            return None;
        }
        for &r in &edges {
            // harness BFS on the partial graph from the column node
            let g = RefGraph::from_sparse(&partial);
            let d = g.dist(nrows + col, None);
            let dist: Vec<Option<usize>> = d[..nrows].to_vec();
            let cand: Vec<usize> = if dist.iter().any(|x| x.is_none()) {
                (0..nrows).filter(|&i| dist[i].is_none()).collect()
            } else {
                let mx = dist.iter().map(|x| x.unwrap()).max().unwrap();
                (0..nrows).filter(|&i| dist[i] == Some(mx)).collect()
            };
            let minw = cand.iter().map(|&i| partial.row_weight(i)).min().unwrap();
            let allowed: BTreeSet<usize> = cand.into_iter().filter(|&i| partial.row_weight(i) == minw).collect();
            if !allowed.contains(&r) {
                acc.violate(key, format!("column {}: edge placed on check {}, but at insertion time the admissible checks (unreachable or farthest, least degree) were {:?} (distances {:?})", col, r, allowed, dist), replay);
                return None;
            }
            partial.insert(r, col);
        }
    }
    Some(ones(&h))
}

// ------------------------------------------------------------------ seed search

fn pool_of(threads: usize) -> &'static rayon::ThreadPool {
    static POOLS: std::sync::OnceLock<Vec<(usize, rayon::ThreadPool)>> = std::sync::OnceLock::new();
    let pools = POOLS.get_or_init(|| [1usize, 2, 4, 16].iter().map(|&n| (n, rayon::ThreadPoolBuilder::new().num_threads(n).build().unwrap())).collect());
    &pools.iter().find(|(n, _)| *n == threads).unwrap().1
}

fn check_search(c: &MnConfig, start: u64, window: u64, acc: &mut Acc) {
    let key = format!("{}:search{}+{}", mn_key(c), start, window);
    let replay = json!({"kind": "search", "config": mn_json(c), "start": start, "window": window});
    // the environment's complete answer menu: which seeds succeed, and with what
    let per_seed: Vec<Option<Vec<(usize, usize)>>> = (start..start + window).map(|s| c.run(s).ok().map(|h| ones(&h))).collect();
    let first_ok = per_seed.iter().position(|x| x.is_some());
    let mut windows: Vec<(u64, u64)> = vec![(start, window), (start, 0), (start, 1)];
    if let Some(f) = first_ok {
        windows.push((start, f as u64)); // ends just before the first successful seed
        windows.push((start, f as u64 + 1)); // ends just at it
        windows.push((start + f as u64, 1));
    }
    // windows beyond 2^32 seeds (a count that no longer fits 32 bits): only where at least half of the
    // seeds of the small window succeed, so that any scan order finds one at once
    if per_seed.iter().filter(|x| x.is_some()).count() * 2 >= per_seed.len().max(1) && !per_seed.is_empty() {
        for t in [1u64 << 32, (1u64 << 32) + 1, (1u64 << 33) + 5] {
            acc.evals += 1;
            match guard(|| pool_of(4).install(|| c.search(start, t))) {
                Err(e) => {
                    acc.violate(key, format!("search({}, {}) panicked: {}", start, t, e), replay);
                    return;
                }
                Ok(None) => {
                    acc.violate(key, format!("search({}, {}) found nothing although seeds of that range succeed", start, t), replay);
                    return;
                }
                Ok(Some((s, h))) => {
                    if s < start || s - start >= t {
                        acc.violate(key, format!("search({}, {}) returned seed {} outside the requested range", start, t, s), replay);
                        return;
                    }
                    match guard(|| c.run(s)) {
                        Ok(Ok(h2)) if ones(&h2) == ones(&h) => acc.nontrivial += 1,
                        _ => {
                            acc.violate(key, format!("search({}, {}) returned seed {} with a matrix that seed does not produce", start, t, s), replay);
                            return;
                        }
                    }
                }
            }
        }
    }
    for (a, t) in windows {
        let s_set: Vec<u64> = (a..a + t).filter(|s| per_seed[(*s - start) as usize].is_some()).collect();
        for threads in [1usize, 2, 4, 16] {
            for rep in 0..3 {
                acc.evals += 1;
                let pool = pool_of(threads);
                let res = guard(|| pool.install(|| c.search(a, t)));
                match res {
                    Err(e) => {
                        acc.violate(key, format!("search({}, {}) panicked: {}", a, t, e), replay);
                        return;
                    }
                    Ok(None) => {
                        if !s_set.is_empty() {
                            acc.violate(key, format!("search({}, {}) found nothing although seeds {:?} succeed", a, t, s_set), replay);
                            return;
                        }
                    }
                    Ok(Some((s, h))) => {
                        if s < a || s >= a + t {
                            acc.violate(key, format!("search({}, {}) returned seed {} outside the requested range", a, t, s), replay);
                            return;
                        }
                        match &per_seed[(s - start) as usize] {
                            Some(m) if *m == ones(&h) => {}
                            Some(_) => {
                                acc.violate(key, format!("search({}, {}) returned seed {} with a matrix that seed does not produce", a, t, s), replay);
                                return;
                            }
                            None => {
                                acc.violate(key, format!("search({}, {}) returned seed {} which fails", a, t, s), replay);
                                return;
                            }
                        }
                        if s_set.len() > 1 {
                            acc.nontrivial += 1;
                        }
                        acc.outcome(&(mn_key(c), a, t, s));
                    }
                }
                let _ = rep;
            }
        }
    }
}

/// Search windows of 1024 .. 2048 seeds over configurations whose successful seeds are sparse: the
/// per-seed outcome of 6144 consecutive seeds is computed first, then for every successful seed s
/// windows are chosen that put s at offsets 1023, 1024 and 2047 (a window's verdict is known from
/// the table: Some in-window success iff one exists).
fn check_search_sparse(base: u64, acc: &mut Acc) {
    let cfgs = [
        MnConfig { nrows: 10, ncols: 15, wr: 3, wc: 2, backtrack_cols: 0, backtrack_trials: 0, min_girth: Some(10), girth_trials: 0, fill_policy: FillPolicy::Random },
        MnConfig { nrows: 8, ncols: 12, wr: 3, wc: 2, backtrack_cols: 0, backtrack_trials: 0, min_girth: Some(10), girth_trials: 0, fill_policy: FillPolicy::Random },
    ];
    for c in cfgs.iter() {
        let span = 6144u64;
        let ok: Vec<bool> = {
            use rayon::prelude::*;
            (base..base + span).into_par_iter().map(|s| guard(|| c.run(s)).map(|r| r.is_ok()).unwrap_or(false)).collect()
        };
        let successes: Vec<u64> = (0..span).filter(|&i| ok[i as usize]).collect();
        acc.add("sparse_search_successful_seeds", successes.len() as u64);
        let mut windows: Vec<(u64, u64)> = Vec::new();
        for &p in successes.iter().take(40) {
            for (back, t) in [(1023u64, 1024u64), (1023, 2048), (2047, 2048), (1024, 1025), (1023, 1023 + 2), (511, 512)] {
                if p >= back && p - back + t <= span {
                    windows.push((base + p - back, t));
                }
            }
        }
        windows.sort_unstable();
        windows.dedup();
        for (a, t) in windows {
            acc.evals += 1;
            acc.nontrivial += 1;
            let key = format!("{}:search-sparse{}+{}", mn_key(c), a, t);
            let replay = json!({"kind": "search-sparse"});
            let in_window: Vec<u64> = (a..a + t).filter(|s| ok[(s - base) as usize]).collect();
            match guard(|| pool_of(4).install(|| c.search(a, t))) {
                Err(e) => acc.violate(key, format!("search({}, {}) panicked: {}", a, t, e), replay),
                Ok(None) => {
                    if !in_window.is_empty() {
                        acc.violate(key, format!("search({}, {}) found nothing although seeds {:?} of that range succeed", a, t, in_window), replay);
                    }
                }
                Ok(Some((s, h))) => {
                    if !in_window.contains(&s) {
                        acc.violate(key, format!("search({}, {}) returned seed {} which is not a successful seed of the range ({:?})", a, t, s, in_window), replay);
                    } else if guard(|| c.run(s)).ok().and_then(|r| r.ok()).map(|h2| ones(&h2)) != Some(ones(&h)) {
                        acc.violate(key, format!("search({}, {}) returned seed {} with a matrix that seed does not produce", a, t, s), replay);
                    }
                }
            }
        }
    }
}

fn replay_element(v: &Value, run: &Run, acc: &mut Acc) {
    match v["kind"].as_str() {
        Some("mn") => {
            check_mn_run(&mn_from_json(&v["config"]), v["seed"].as_u64().unwrap(), acc);
        }
        Some("peg") => {
            check_peg(v["nrows"].as_u64().unwrap() as usize, v["ncols"].as_u64().unwrap() as usize, v["wc"].as_u64().unwrap() as usize, v["seed"].as_u64().unwrap(), acc);
        }
        Some("search") => check_search(&mn_from_json(&v["config"]), v["start"].as_u64().unwrap(), v["window"].as_u64().unwrap(), acc),
        Some("sensitivity") => sensitivity(run, acc),
        Some("search-sparse") => check_search_sparse(run.seed.wrapping_mul(64), acc),
        _ => machinery("C16: unknown replay element"),
    }
}

/// Different seeds explore different choices (deterministic given ChaCha8).
fn sensitivity(run: &Run, acc: &mut Acc) {
    let base = run.seed.wrapping_mul(64);
    let c = MnConfig { nrows: 4, ncols: 8, wr: 4, wc: 2, backtrack_cols: 0, backtrack_trials: 0, min_girth: None, girth_trials: 0, fill_policy: FillPolicy::Random };
    let distinct: BTreeSet<Vec<(usize, usize)>> = (base..base + 64).filter_map(|s| c.run(s).ok()).map(|h| ones(&h)).collect();
    acc.evals += 1;
    if distinct.len() < 2 {
        acc.violate("mn:seed-insensitive".into(), format!("64 consecutive seeds produced {} distinct 4x8 matrices", distinct.len()), json!({"kind": "sensitivity"}));
    }
    let cu = MnConfig { fill_policy: FillPolicy::Uniform, ..c.clone() };
    let du: BTreeSet<Vec<(usize, usize)>> = (base..base + 64).filter_map(|s| cu.run(s).ok()).map(|h| ones(&h)).collect();
    if du.len() < 2 {
        acc.violate("mn-uniform:seed-insensitive".into(), format!("64 consecutive seeds produced {} distinct 4x8 matrices (uniform policy)", du.len()), json!({"kind": "sensitivity"}));
    }
    let dp: BTreeSet<Vec<(usize, usize)>> = (base..base + 64).filter_map(|s| PegConfig { nrows: 4, ncols: 8, wc: 2 }.run(s).ok()).map(|h| ones(&h)).collect();
    if dp.len() < 2 {
        acc.violate("peg:seed-insensitive".into(), format!("64 consecutive seeds produced {} distinct 4x8 PEG matrices", dp.len()), json!({"kind": "sensitivity"}));
    }
    acc.add("distinct_matrices_4x8_random", distinct.len() as u64);
    acc.add("distinct_matrices_4x8_uniform", du.len() as u64);
    acc.add("distinct_matrices_4x8_peg", dp.len() as u64);
}

pub fn run(run: &Run) -> i32 {
    let mut acc = Acc::new();
    let mut extra = serde_json::Map::new();
    if let Some(p) = &run.replay {
        let v: Value = serde_json::from_str(&std::fs::read_to_string(p).unwrap_or_else(|_| machinery("cannot read replay"))).unwrap_or_else(|_| machinery("bad replay json"));
        replay_element(&v["element"], run, &mut acc);
    } else {
        let nseeds: u64 = if run.thorough() { 128 } else { 32 };
        let base = run.seed.wrapping_mul(64);
        let cfgs = mn_configs(run.thorough());
        extra.insert("mackay_neal_configurations".into(), json!(cfgs.len()));
        extra.insert("seed_window".into(), json!([base, base + nseeds]));
        acc = par_items(&cfgs, |c, a| {
            for s in base..base + nseeds {
                if let Some(Some(m)) = check_mn_run(c, s, a) {
                    if s == base && (c.nrows + c.ncols + c.wc) % 23 == 0 {
                        a.sample(|| json!({"mackay_neal": mn_json(c), "seed": s, "ones": m}));
                    }
                }
            }
        });
        // PEG
        let (prm, pcm) = if run.thorough() { (8, 14) } else { (6, 10) };
        let mut pegs = Vec::new();
        for nrows in 1..=prm {
            for ncols in 1..=pcm {
                for wc in 1..=4usize {
                    pegs.push((nrows, ncols, wc));
                }
            }
        }
        for (r, c) in [(17usize, 20usize), (33, 40), (65, 70), (129, 3), (257, 5), (5, 65), (70, 140)] {
            for wc in [3usize, 9, 17] {
                pegs.push((r, c, wc));
            }
        }
        extra.insert("peg_configurations".into(), json!(pegs.len()));
        let a2 = par_items(&pegs, |&(r, c, w), a| {
            for s in base..base + nseeds {
                if let Some(m) = check_peg(r, c, w, s, a) {
                    if s == base && r == 3 && c == 6 && w == 2 {
                        a.sample(|| json!({"peg": [r, c, w], "seed": s, "ones": m}));
                    }
                }
            }
        });
        acc = acc.merge(a2);
        sensitivity(run, &mut acc);
        check_search_sparse(base, &mut acc);
        // seed search on a sub-grid of configurations (those where success depends on the seed are the interesting ones)
        let step = if run.thorough() { 5 } else { 13 };
        let search_cfgs: Vec<MnConfig> = cfgs.iter().step_by(step).cloned().collect();
        extra.insert("search_configurations".into(), json!(search_cfgs.len()));
        // plain threads, not the global rayon pool: a rayon worker that waits on another
        // pool's install() keeps stealing jobs and would nest these calls without bound
        let chunks: Vec<&[MnConfig]> = search_cfgs.chunks(search_cfgs.len().div_ceil(8).max(1)).collect();
        let parts: Vec<Acc> = std::thread::scope(|sc| {
            let hs: Vec<_> = chunks
                .iter()
                .map(|ch| {
                    sc.spawn(move || {
                        let mut a = Acc::new();
                        for c in ch.iter() {
                            check_search(c, base, 24, &mut a);
                        }
                        a
                    })
                })
                .collect();
            hs.into_iter().map(|h| h.join().unwrap_or_else(|_| machinery("C16: search thread panicked"))).collect()
        });
        for a3 in parts {
            acc = acc.merge(a3);
        }
    }
    finish(
        run,
        acc,
        Coverage {
            rule: "MacKay-Neal and PEG also on dimensions just past 16, 32, 64, 128, 256 with column weights 3..17; MacKay-Neal: rows 2..6(8) x cols 2..10(14) x wc 1..3 x wr in {ceil(cols*wc/rows), +1, cols} x {Random, Uniform} x min girth {None, 4/6/8 with 0/5/50 trials, 3/5/7 with 5 trials} x backtracking {(0,0),(1,3),(2,10)}, each with a window of 32 (128) consecutive seeds starting at VERIF_SEED*64, every run executed twice (determinism); PEG: rows 1..6(8) x cols 1..10(14) x wc 1..4 (including wc > rows) x the same seeds with the edge rule replayed edge by edge against the harness's own BFS on the partial graph; seed search: on every 13th (5th) configuration the per-seed outcome set of a 24-seed window is computed exhaustively, then search() is run under rayon pools of 1, 2, 4 and 16 threads (3 repetitions) on the whole window and on windows ending just before / just at the first successful seed; where at least half of the window succeeds also with try counts of 2^32, 2^32+1 and 2^33+5 (a count beyond 32 bits); two configurations with sparse successes: per-seed outcomes of 6144 seeds, then windows of 512..2048 seeds that put each successful seed at offsets 511, 1023, 1024, 2047. Non-trivial = successful construction (all invariants checked) / search with more than one admissible answer.".into(),
            exhaustive: true,
            extra,
            graph: None,
            assumptions: vec![
                "u64 seeds: only the stated window is enumerated (VERIF_SEED rotates it)".into(),
                "rayon's work-stealing schedules are not enumerable here: which admissible seed search() returns is schedule-dependent; correctness for every schedule rests on the exhaustively checked per-seed outcome set (each seed's run shares no state with the others) plus the pool-size sweep".into(),
            ],
        },
    )
}
