//! C17 — sparse-matrix editing behaves like a set of (row, column) positions.
//! E-bfs to closure: a state is the concrete SparseMatrix (keyed by its two
//! ordered adjacency lists, i.e. its complete contents), a transition is one
//! real API call from the full op menu, the oracle compares every query with
//! a BTreeSet model after every transition.

use crate::common::*;
use ldpc_toolbox::sparse::SparseMatrix;
use rayon::prelude::*;
use serde_json::{json, Value};
use std::collections::{BTreeSet, HashSet};

#[derive(Clone, Debug)]
enum Op {
    Insert(usize, usize),
    Remove(usize, usize),
    Toggle(usize, usize),
    ClearRow(usize),
    ClearCol(usize),
    InsertRow(usize, Vec<usize>),
    SetRow(usize, Vec<usize>),
    InsertCol(usize, Vec<usize>),
    SetCol(usize, Vec<usize>),
}

type Model = BTreeSet<(usize, usize)>;
type Key = (Vec<Vec<usize>>, Vec<Vec<usize>>);

fn lists(range: usize) -> Vec<Vec<usize>> {
    let mut v = vec![vec![]];
    for a in 0..range {
        v.push(vec![a]);
    }
    for a in 0..range {
        for b in 0..range {
            v.push(vec![a, b]);
        }
    }
    if range >= 3 {
        v.push((0..range).collect());
        v.push((0..range).rev().collect());
    }
    v
}

fn ops(r: usize, c: usize) -> Vec<Op> {
    let mut v = Vec::new();
    for i in 0..r {
        for j in 0..c {
            v.push(Op::Insert(i, j));
            v.push(Op::Remove(i, j));
            v.push(Op::Toggle(i, j));
        }
    }
    for i in 0..r {
        v.push(Op::ClearRow(i));
        for l in lists(c) {
            v.push(Op::InsertRow(i, l.clone()));
            v.push(Op::SetRow(i, l));
        }
    }
    for j in 0..c {
        v.push(Op::ClearCol(j));
        for l in lists(r) {
            v.push(Op::InsertCol(j, l.clone()));
            v.push(Op::SetCol(j, l));
        }
    }
    v
}

/// Restricted menu for long shapes (10x1, 1x10, 9x2, 2x9): bulk operations with lists longer than
/// any small inline capacity, and single-position edits at the ends.
fn ops_long(r: usize, c: usize) -> Vec<Op> {
    let long = r.max(c);
    let lists: Vec<Vec<usize>> = vec![
        vec![],
        (0..long).collect(),
        (0..long).rev().collect(),
        (0..long - 1).collect(),
        (1..long).rev().collect(),
        (0..long).filter(|x| x % 2 == 0).collect(),
        vec![long - 1, 0, long - 1],
    ];
    let ends = [0, long - 2, long - 1];
    let mut v = Vec::new();
    if r >= c {
        for j in 0..c {
            v.push(Op::ClearCol(j));
            for l in &lists {
                v.push(Op::InsertCol(j, l.clone()));
                v.push(Op::SetCol(j, l.clone()));
            }
        }
        for &i in &ends {
            v.push(Op::ClearRow(i));
            v.push(Op::SetRow(i, vec![c - 1]));
            v.push(Op::InsertRow(i, (0..c).collect()));
            for j in 0..c {
                v.push(Op::Insert(i, j));
                v.push(Op::Remove(i, j));
                v.push(Op::Toggle(i, j));
            }
        }
    } else {
        for i in 0..r {
            v.push(Op::ClearRow(i));
            for l in &lists {
                v.push(Op::InsertRow(i, l.clone()));
                v.push(Op::SetRow(i, l.clone()));
            }
        }
        for &j in &ends {
            v.push(Op::ClearCol(j));
            v.push(Op::SetCol(j, vec![r - 1]));
            v.push(Op::InsertCol(j, (0..r).collect()));
            for i in 0..r {
                v.push(Op::Insert(i, j));
                v.push(Op::Remove(i, j));
                v.push(Op::Toggle(i, j));
            }
        }
    }
    v
}

fn menu_for(r: usize, c: usize, long: bool) -> Vec<Op> {
    if long {
        ops_long(r, c)
    } else {
        ops(r, c)
    }
}

fn apply_sut(h: &mut SparseMatrix, op: &Op) {
    match op {
        Op::Insert(i, j) => h.insert(*i, *j),
        Op::Remove(i, j) => h.remove(*i, *j),
        Op::Toggle(i, j) => h.toggle(*i, *j),
        Op::ClearRow(i) => h.clear_row(*i),
        Op::ClearCol(j) => h.clear_col(*j),
        Op::InsertRow(i, l) => h.insert_row(*i, l.iter()),
        Op::SetRow(i, l) => h.set_row(*i, l.iter()),
        Op::InsertCol(j, l) => h.insert_col(*j, l.iter()),
        Op::SetCol(j, l) => h.set_col(*j, l.iter()),
    }
}

fn apply_model(m: &mut Model, op: &Op) {
    match op {
        Op::Insert(i, j) => {
            m.insert((*i, *j));
        }
        Op::Remove(i, j) => {
            m.remove(&(*i, *j));
        }
        Op::Toggle(i, j) => {
            if !m.remove(&(*i, *j)) {
                m.insert((*i, *j));
            }
        }
        Op::ClearRow(i) => m.retain(|&(a, _)| a != *i),
        Op::ClearCol(j) => m.retain(|&(_, b)| b != *j),
        Op::InsertRow(i, l) => {
            for &j in l {
                m.insert((*i, j));
            }
        }
        Op::SetRow(i, l) => {
            m.retain(|&(a, _)| a != *i);
            for &j in l {
                m.insert((*i, j));
            }
        }
        Op::InsertCol(j, l) => {
            for &i in l {
                m.insert((i, *j));
            }
        }
        Op::SetCol(j, l) => {
            m.retain(|&(_, b)| b != *j);
            for &i in l {
                m.insert((i, *j));
            }
        }
    }
}

fn key_of(h: &SparseMatrix) -> Key {
    (
        (0..h.num_rows()).map(|i| h.iter_row(i).cloned().collect()).collect(),
        (0..h.num_cols()).map(|j| h.iter_col(j).cloned().collect()).collect(),
    )
}

fn oracle(h: &SparseMatrix, m: &Model, r: usize, c: usize) -> Result<(), String> {
    if h.num_rows() != r || h.num_cols() != c {
        return Err(format!("dimensions became {}x{}", h.num_rows(), h.num_cols()));
    }
    for i in 0..r {
        for j in 0..c {
            if h.contains(i, j) != m.contains(&(i, j)) {
                return Err(format!("contains({},{}) = {}, set says {}", i, j, h.contains(i, j), m.contains(&(i, j))));
            }
        }
    }
    for i in 0..r {
        let want: Vec<usize> = m.iter().filter(|&&(a, _)| a == i).map(|&(_, b)| b).collect();
        let mut got: Vec<usize> = h.iter_row(i).cloned().collect();
        if h.row_weight(i) != want.len() {
            return Err(format!("row_weight({}) = {}, set says {}", i, h.row_weight(i), want.len()));
        }
        let len = got.len();
        got.sort_unstable();
        got.dedup();
        if got.len() != len {
            return Err(format!("iter_row({}) yields duplicates", i));
        }
        if got != want {
            return Err(format!("iter_row({}) = {:?}, set says {:?}", i, got, want));
        }
    }
    for j in 0..c {
        let want: Vec<usize> = m.iter().filter(|&&(_, b)| b == j).map(|&(a, _)| a).collect();
        let mut got: Vec<usize> = h.iter_col(j).cloned().collect();
        if h.col_weight(j) != want.len() {
            return Err(format!("col_weight({}) = {}, set says {}", j, h.col_weight(j), want.len()));
        }
        let len = got.len();
        got.sort_unstable();
        got.dedup();
        if got.len() != len {
            return Err(format!("iter_col({}) yields duplicates", j));
        }
        if got != want {
            return Err(format!("iter_col({}) = {:?}, set says {:?}", j, got, want));
        }
    }
    let mut all: Vec<(usize, usize)> = h.iter_all().collect();
    let len = all.len();
    all.sort_unstable();
    all.dedup();
    if all.len() != len {
        return Err("iter_all yields duplicates".into());
    }
    if all != m.iter().cloned().collect::<Vec<_>>() {
        return Err(format!("iter_all = {:?}, set says {:?}", all, m));
    }
    Ok(())
}

struct St {
    h: SparseMatrix,
    m: Model,
    hist: Vec<usize>,
}

fn explore(r: usize, c: usize, long: bool, max_depth: usize, cap_states: usize, acc: &mut Acc) -> (u64, u64, usize, bool) {
    let menu = menu_for(r, c, long);
    let mut seen: HashSet<Key> = HashSet::new();
    let h0 = SparseMatrix::new(r, c);
    seen.insert(key_of(&h0));
    let mut frontier = vec![St { h: h0, m: Model::new(), hist: vec![] }];
    let mut states = 1u64;
    let mut transitions = 0u64;
    let mut depth = 0usize;
    let mut closed = true;
    while !frontier.is_empty() {
        if depth >= max_depth {
            closed = false;
            break;
        }
        depth += 1;
        let results: Vec<(Vec<(Key, St)>, Acc)> = frontier
            .par_iter()
            .map(|st| {
                let mut a = Acc::new();
                let mut out = Vec::new();
                for (oi, op) in menu.iter().enumerate() {
                    a.evals += 1;
                    let mut h = st.h.clone();
                    let mut m = st.m.clone();
                    let mut hist = st.hist.clone();
                    hist.push(oi);
                    let key = format!("sparse:{}x{}:{:?}", r, c, hist.iter().map(|&i| format!("{:?}", menu[i])).collect::<Vec<_>>());
                    let replay = json!({"kind": "history", "r": r, "c": c, "long_menu": long, "ops": hist});
                    if let Err(e) = guard(|| apply_sut(&mut h, op)) {
                        a.violate(key, format!("{:?} panicked: {}", op, e), replay);
                        continue;
                    }
                    apply_model(&mut m, op);
                    if let Err(e) = oracle(&h, &m, r, c) {
                        a.violate(key, format!("after {:?}: {}", op, e), replay);
                        continue;
                    }
                    // no-op clauses
                    let noop = match op {
                        Op::Insert(i, j) => st.m.contains(&(*i, *j)),
                        Op::Remove(i, j) => !st.m.contains(&(*i, *j)),
                        _ => false,
                    };
                    if noop {
                        a.count("noop_transitions");
                        if h != st.h || guard(|| h.alist()).ok() != guard(|| st.h.alist()).ok() {
                            a.violate(key, format!("{:?} on a matrix where it should change nothing changed it", op), replay);
                            continue;
                        }
                    }
                    if !st.m.is_empty() {
                        a.nontrivial += 1;
                    }
                    out.push((key_of(&h), St { h, m, hist }));
                }
                (out, a)
            })
            .collect();
        let mut next = Vec::new();
        for (outs, a) in results {
            transitions += a.evals;
            let taken = std::mem::take(acc);
            *acc = taken.merge(a);
            for (k, st) in outs {
                if !seen.contains(&k) {
                    if seen.len() >= cap_states {
                        closed = false;
                        continue;
                    }
                    seen.insert(k);
                    states += 1;
                    if states % 5000 == 1 {
                        acc.sample(|| json!({"shape": [r, c], "history": st.hist.iter().map(|&i| format!("{:?}", menu[i])).collect::<Vec<_>>(), "rows": key_of(&st.h).0, "cols": key_of(&st.h).1}));
                    }
                    next.push(st);
                }
            }
        }
        frontier = next;
    }
    (states, transitions, depth, closed)
}

fn replay_element(v: &Value, acc: &mut Acc) {
    let r = v["r"].as_u64().unwrap() as usize;
    let c = v["c"].as_u64().unwrap() as usize;
    let menu = menu_for(r, c, v["long_menu"].as_bool().unwrap_or(false));
    let mut h = SparseMatrix::new(r, c);
    let mut m = Model::new();
    let hist: Vec<usize> = v["ops"].as_array().unwrap().iter().map(|x| x.as_u64().unwrap() as usize).collect();
    for (step, &oi) in hist.iter().enumerate() {
        acc.evals += 1;
        let op = &menu[oi];
        let key = format!("sparse:{}x{}:{:?}", r, c, hist[..=step].iter().map(|&i| format!("{:?}", menu[i])).collect::<Vec<_>>());
        let prev = h.clone();
        let prev_m = m.clone();
        if let Err(e) = guard(|| apply_sut(&mut h, op)) {
            acc.violate(key, format!("{:?} panicked: {}", op, e), v.clone());
            return;
        }
        apply_model(&mut m, op);
        if let Err(e) = oracle(&h, &m, r, c) {
            acc.violate(key, format!("after {:?}: {}", op, e), v.clone());
            return;
        }
        let noop = match op {
            Op::Insert(i, j) => prev_m.contains(&(*i, *j)),
            Op::Remove(i, j) => !prev_m.contains(&(*i, *j)),
            _ => false,
        };
        if noop && h != prev {
            acc.violate(key, format!("{:?} should change nothing", op), v.clone());
            return;
        }
    }
}

pub fn run(run: &Run) -> i32 {
    let mut acc = Acc::new();
    let mut graph = (0u64, 0u64, 0u64);
    let mut extra = serde_json::Map::new();
    let mut all_closed = true;
    if let Some(p) = &run.replay {
        let v: Value = serde_json::from_str(&std::fs::read_to_string(p).unwrap_or_else(|_| machinery("cannot read replay"))).unwrap_or_else(|_| machinery("bad replay json"));
        replay_element(&v["element"], &mut acc);
        graph = (1, acc.evals.max(1), acc.evals);
    } else {
        let mut shapes = vec![(1, 1), (1, 3), (3, 1), (2, 2), (2, 3), (3, 2)];
        let cap = if run.thorough() { 3_000_000 } else { 400_000 };
        if run.thorough() {
            shapes.push((3, 3));
            shapes.push((2, 4));
        }
        let mut per_shape = Vec::new();
        for (r, c) in shapes {
            let (s, t, d, closed) = explore(r, c, false, usize::MAX, cap, &mut acc);
            graph.0 += s;
            graph.1 += t;
            graph.2 += t;
            all_closed &= closed;
            per_shape.push(json!({"shape": [r, c], "states": s, "transitions": t, "depth": d, "closed": closed, "ops": ops(r, c).len()}));
        }
        // long shapes: lists of 9-10 indices; every history up to a stated depth (no closure claim)
        let long_depth = if run.thorough() { 5 } else { 4 };
        let mut per_long = Vec::new();
        // long dimensions just past 8, 16, 32, 64 (thorough: 256)
        let mut long_shapes = vec![(10usize, 1usize), (1, 10), (9, 2), (2, 9), (17, 1), (1, 17), (18, 2), (2, 18), (33, 1), (1, 33), (65, 1), (1, 65)];
        if run.thorough() {
            long_shapes.extend([(257, 1), (1, 257), (65, 2), (2, 65)]);
        }
        for (r, c) in long_shapes {
            let long_depth = if r.max(c) > 18 { long_depth - 1 } else { long_depth };
            let (s, t, d, _) = explore(r, c, true, long_depth, usize::MAX, &mut acc);
            graph.0 += s;
            graph.1 += t;
            graph.2 += t;
            per_long.push(json!({"shape": [r, c], "states": s, "transitions": t, "depth_bound_completed": d, "ops": ops_long(r, c).len()}));
        }
        extra.insert("long_shapes_depth_bounded".into(), Value::Array(per_long));
        extra.insert("per_shape".into(), Value::Array(per_shape));
    }
    extra.insert("closure_reached_everywhere".into(), json!(all_closed));
    finish(
        run,
        acc,
        Coverage {
            rule: "explicit-state BFS from the empty matrix of each listed shape; transition = one real call of insert/remove/toggle on every position, clear_row/clear_col on every index, insert_row/set_row/insert_col/set_col with every index list of length <= 2 (repeats and both orders included) plus the full ascending/descending list; state key = both ordered adjacency lists (complete object contents, so merged states have identical futures); search runs until no new state appears (closure) unless the state cap is hit (then reported). Every transition is executed on the implementation, so traces_validated_against_impl = transitions. In addition the long shapes 10x1, 9x2, 17x1, 18x2, 33x1, 65x1 (thorough 257x1, 65x2) and their transposes with a restricted menu (bulk operations with full-length lists in ascending / descending / partial / repeating order, single-position edits at the ends) are explored for every history up to depth 4 (5 thorough); that part is depth-bounded, not closed. Non-trivial = transition taken from a non-empty matrix.".into(),
            exhaustive: all_closed,
            extra,
            graph: Some(graph),
            assumptions: vec!["shapes beyond those listed are not explored; histories of any length over the op menu are covered for the small shapes whose search closed, histories up to the stated depth for the long shapes".into()],
        },
    )
}
