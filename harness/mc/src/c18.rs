//! C18 — each decoder implementation name builds the arithmetic and schedule
//! it names. E-enum over the 36 names (exhaustive), every edit-distance-1
//! non-member string, and a separating family of (matrix, LLR, limit) inputs
//! on which the factory-built decoder must equal the directly constructed
//! generic decoder named by the string.

use crate::common::*;
use crate::dec;
use crate::mats::Small;
use clap::ValueEnum;
use ldpc_toolbox::decoder::factory::DecoderImplementation;
use serde_json::{json, Value};
use std::collections::BTreeSet;
use std::str::FromStr;

fn family_matrices() -> Vec<(&'static str, Small)> {
    vec![
        ("deg1_3x6", Small::from_rows(6, &[&[0, 1, 3], &[1, 2, 3, 4], &[0, 2, 4, 5]])),
        ("johnson4x6", Small::from_rows(6, &[&[0, 1, 3], &[1, 2, 4], &[0, 4, 5], &[2, 3, 5]])),
        ("deg1_2x5", Small::from_rows(5, &[&[0, 1, 2, 3], &[2, 3, 4]])),
    ]
}

fn family_vectors(m: &Small) -> Vec<Vec<f64>> {
    let n = m.n;
    let mut v = Vec::new();
    for &a in &[0.6, 1.3863, 3.7, 12.6, 14.6, 15.9] {
        for pat in 0..(1u64 << n) {
            if !m.syndrome_ok(pat) {
                v.push((0..n).map(|j| if (pat >> j) & 1 == 1 { -a } else { a }).collect::<Vec<f64>>());
            }
        }
    }
    // special values substituted into weak / strong backgrounds
    for &bg in &[0.3, 2.0, 14.6] {
        for p in 0..n {
            for &s in &[0.0, 1e-46, -1e-46, 0.0625, 0.0624, -0.0625, 1e30, -1e30, -15.875, 30.0] {
                for q in 0..n {
                    if q == p {
                        continue;
                    }
                    let mut x = vec![bg; n];
                    x[p] = s;
                    x[q] = -bg;
                    v.push(x);
                }
            }
        }
    }
    v
}

const LIMITS: [usize; 3] = [1, 2, 5];

fn edits(name: &str) -> Vec<String> {
    let alpha: Vec<char> = ('A'..='Z').chain('a'..='z').chain('0'..='9').collect();
    let chars: Vec<char> = name.chars().collect();
    let mut out = Vec::new();
    for i in 0..chars.len() {
        let mut c = chars.clone();
        c.remove(i);
        out.push(c.iter().collect());
        for &a in &alpha {
            if a != chars[i] {
                let mut c = chars.clone();
                c[i] = a;
                out.push(c.iter().collect());
            }
        }
    }
    for i in 0..=chars.len() {
        for &a in &alpha {
            let mut c = chars.clone();
            c.insert(i, a);
            out.push(c.iter().collect());
        }
    }
    out.push(name.to_lowercase());
    out.push(name.to_uppercase());
    out.push(format!(" {}", name));
    out.push(format!("{} ", name));
    out.push(format!("{}\n", name));
    out
}

fn check_names(acc: &mut Acc) {
    let names = dec::names();
    let set: BTreeSet<String> = names.iter().cloned().collect();
    let variants = DecoderImplementation::value_variants();
    acc.evals += 1;
    if variants.len() != 36 {
        acc.violate("names:count".into(), format!("value list offers {} implementations, 36 documented", variants.len()), json!({"kind": "names"}));
    }
    let offered: Vec<String> = variants
        .iter()
        .map(|v| v.to_possible_value().map(|p| p.get_name().to_string()).unwrap_or_default())
        .collect();
    if offered.iter().cloned().collect::<BTreeSet<_>>() != set {
        acc.violate("names:offered-set".into(), format!("command-line value list {:?} differs from the 36 documented names", offered), json!({"kind": "names"}));
    }
    for (v, o) in variants.iter().zip(&offered) {
        if &v.to_string() != o {
            acc.violate(format!("names:offered:{}", o), format!("variant printing as {} is offered on the command line as {}", v, o), json!({"kind": "names"}));
        }
    }
    for name in &names {
        acc.evals += 1;
        acc.nontrivial += 1;
        let key = format!("names:{}", name);
        match <DecoderImplementation as FromStr>::from_str(name) {
            Ok(imp) => {
                if &imp.to_string() != name {
                    acc.violate(key.clone(), format!("{} parses but prints back as {}", name, imp), json!({"kind": "names"}));
                }
                match <DecoderImplementation as ValueEnum>::from_str(name, false) {
                    Ok(v2) if v2 == imp => {}
                    other => acc.violate(key.clone(), format!("clap value parser gives {:?} for {}", other, name), json!({"kind": "names"})),
                }
                // every prefix and every other name must not alias this one
                acc.outcome(&imp.to_string());
            }
            Err(e) => acc.violate(key, format!("{} does not parse: {}", name, e), json!({"kind": "names"})),
        }
    }
    // grammatically plausible but non-existent names, and other non-members
    let mut non_members: Vec<String> = vec![
        "".into(),
        "HL".into(),
        "Phi".into(),
        "phif64".into(),
        "HLphif64".into(),
        "hlPhif64".into(),
        "HLHLPhif64".into(),
        "Nope".into(),
        "Phif64,Phif32".into(),
    ];
    for a in dec::ARITHMETICS.iter() {
        let hl = format!("HL{}", a);
        if !set.contains(&hl) {
            non_members.push(hl);
        }
    }
    for name in &names {
        non_members.extend(edits(name));
    }
    let a2 = par_items(&non_members, |s, a| {
        a.evals += 1;
        if set.contains(s) {
            return;
        }
        a.nontrivial += 1;
        if let Ok(imp) = <DecoderImplementation as FromStr>::from_str(s) {
            a.violate(format!("names:accepts:{:?}", s), format!("the string {:?} is not an implementation name but parses as {}", s, imp), json!({"kind": "reject", "s": s}));
        }
        if let Ok(imp) = <DecoderImplementation as ValueEnum>::from_str(s, false) {
            a.violate(format!("names:clap-accepts:{:?}", s), format!("the command-line parser accepts {:?} as {}", s, imp), json!({"kind": "reject", "s": s}));
        }
    });
    let taken = std::mem::take(acc);
    *acc = taken.merge(a2);
}

/// Signature of a (schedule, arithmetic) combination on the family.
fn signature(layered: bool, arith: &str, fam: &[(Small, Vec<Vec<f64>>)]) -> Vec<u64> {
    let mut sig = Vec::new();
    for (m, vecs) in fam {
        let mut d = dec::direct_build(layered, arith, m.sparse_var());
        for v in vecs {
            for &l in &LIMITS {
                let r = guard(|| d.decode(v, l));
                sig.push(hash64(&r.map(|x| dec::show(&x))));
            }
        }
    }
    sig
}

fn gcd(a: usize, b: usize) -> usize {
    if b == 0 {
        a
    } else {
        gcd(b, a % b)
    }
}

fn check_binding(acc: &mut Acc, extra: &mut serde_json::Map<String, Value>) {
    let fam: Vec<(Small, Vec<Vec<f64>>)> = family_matrices().into_iter().map(|(_, m)| (m.clone(), family_vectors(&m))).collect();
    let fam_size: usize = fam.iter().map(|(_, v)| v.len()).sum::<usize>() * LIMITS.len();
    extra.insert("family_size".into(), json!(fam_size));
    let names = dec::names();
    // factory vs direct
    let a = par_items(&names, |name, a| {
        let (layered, arith) = dec::parse_name(name);
        for (m, vecs) in &fam {
            let mut f = match dec::factory_build(name, m.sparse_var()) {
                Ok(f) => f,
                Err(e) => {
                    a.violate(format!("binding:{}:build", name), e, json!({"kind": "binding", "name": name}));
                    return;
                }
            };
            let mut d = dec::direct_build(layered, arith, m.sparse_var());
            for v in vecs {
                for &l in &LIMITS {
                    a.evals += 1;
                    let rf = guard(|| f.decode(v, l));
                    let rd = guard(|| d.decode(v, l));
                    if rf != rd {
                        a.violate(
                            format!("binding:{}", name),
                            format!("factory-built {} returns {:?} but {} {} built directly returns {:?} on H={} llrs={:?} limit={}", name, rf.as_ref().map(dec::show), if layered { "horizontal_layered" } else { "flooding" }, arith, rd.as_ref().map(dec::show), m.alist_like(), v, l),
                            json!({"kind": "binding", "name": name, "n": m.n, "rows": m.rows, "llr_bits": v.iter().map(|x| x.to_bits()).collect::<Vec<u64>>(), "limit": l}),
                        );
                        return;
                    }
                    if matches!(&rf, Ok(Ok(o)) if o.iterations > 0) || matches!(&rf, Ok(Err(_))) {
                        a.nontrivial += 1;
                    }
                }
            }
        }
    });
    // very wide matrices (columns just past 4096, 32768, 65536) with a handful of ones stored out of order
    for n in [4097usize, 32769, 65537] {
        let rows: Vec<Vec<usize>> = vec![vec![1, n - 1, 900, 5], vec![2000, 5, n - 1, 900], vec![n - 1, 5, 2000, 900], vec![n - 1, 5]];
        let build = || {
            let mut h = ldpc_toolbox::sparse::SparseMatrix::new(rows.len(), n);
            for (i, r) in rows.iter().enumerate() {
                for &j in r {
                    h.insert(i, j);
                }
            }
            h
        };
        let mut llrs = vec![1.0f64; n];
        llrs[1] = 0.5;
        llrs[5] = 2.0;
        llrs[900] = 1.0;
        llrs[2000] = -3.0;
        llrs[n - 1] = -2.0;
        let mut llrs2 = vec![4.0f64; n];
        llrs2[5] = -0.3;
        llrs2[n - 1] = -1.2;
        llrs2[900] = 0.7;
        let a4 = par_items(&names, |name, a| {
            let (layered, arith) = dec::parse_name(name);
            let mut f = dec::factory_build(name, build()).unwrap();
            let mut d = dec::direct_build(layered, arith, build());
            for (vi, v) in [&llrs, &llrs2].iter().enumerate() {
                for l in [1usize, 2, 3] {
                    a.evals += 1;
                    a.nontrivial += 1;
                    let rf = guard(|| f.decode(v, l));
                    let rd = guard(|| d.decode(v, l));
                    if rf != rd {
                        a.violate(format!("binding:wide{}:{}", n, name), format!("on the 4x{} matrix (rows stored out of column order), vector #{} limit {}: factory-built and directly built {} disagree", n, vi, l, name), json!({"kind": "binding-wide", "name": name}));
                        return;
                    }
                }
            }
        });
        let taken = std::mem::take(acc);
        *acc = taken.merge(a4);
    }
    // a long code (more than 4096 ones, stored in a scrambled order): factory-built vs directly built
    {
        let (r, n) = (700usize, 1400usize);
        let mut edges: Vec<(usize, usize)> = Vec::new();
        for j in 0..n {
            let mut rs = vec![(j * 7 + 1) % r, (j * 13 + 5) % r, (j * 29 + 11) % r];
            rs.sort_unstable();
            rs.dedup();
            for i in rs {
                edges.push((i, j));
            }
        }
        let build = || {
            let mut h = ldpc_toolbox::sparse::SparseMatrix::new(r, n);
            let len = edges.len();
            let step = (1009..).find(|s| gcd(*s, len) == 1).unwrap();
            for k in 0..len {
                let (i, j) = edges[(k * step + 17) % len];
                h.insert(i, j);
            }
            h
        };
        let mut x = 0x5DEE_CE66_D1CE_4E5Bu64;
        let vecs: Vec<Vec<f64>> = (0..3)
            .map(|_| {
                (0..n)
                    .map(|_| {
                        x ^= x << 13;
                        x ^= x >> 7;
                        x ^= x << 17;
                        let mag = [0.4, 1.1, 2.3, 3.9, 6.2, 9.5, 14.6, 0.07][(x >> 20) as usize % 8];
                        if (x >> 40) % 5 == 0 {
                            -mag
                        } else {
                            mag
                        }
                    })
                    .collect()
            })
            .collect();
        let a3 = par_items(&names, |name, a| {
            let (layered, arith) = dec::parse_name(name);
            let mut f = dec::factory_build(name, build()).unwrap();
            let mut d = dec::direct_build(layered, arith, build());
            for (vi, v) in vecs.iter().enumerate() {
                for l in [1usize, 5] {
                    a.evals += 1;
                    a.nontrivial += 1;
                    let rf = guard(|| f.decode(v, l));
                    let rd = guard(|| d.decode(v, l));
                    if rf != rd {
                        let diff = match (&rf, &rd) {
                            (Ok(x), Ok(y)) => {
                                let (ox, oy) = (x.as_ref().unwrap_or_else(|e| e), y.as_ref().unwrap_or_else(|e| e));
                                format!("iterations {} vs {}, first differing bit {:?}", ox.iterations, oy.iterations, ox.codeword.iter().zip(oy.codeword.iter()).position(|(p, q)| p != q))
                            }
                            _ => "one of them panicked".to_string(),
                        };
                        a.violate(format!("binding:long:{}", name), format!("on the 700x1400 code (4200 ones, scrambled storage order), vector #{} limit {}: factory-built and directly built {} disagree ({})", vi, l, name, diff), json!({"kind": "binding-long", "name": name}));
                        return;
                    }
                }
            }
        });
        let taken = std::mem::take(acc);
        *acc = taken.merge(a3);
    }
    let taken = std::mem::take(acc);
    *acc = taken.merge(a);
    // separation matrix over all 48 direct combinations
    let mut combos: Vec<(bool, &str)> = Vec::new();
    for a in dec::ARITHMETICS.iter() {
        combos.push((false, a));
        combos.push((true, a));
    }
    use rayon::prelude::*;
    let sigs: Vec<Vec<u64>> = combos.par_iter().map(|(l, a)| signature(*l, a, &fam)).collect();
    let mut inseparable = Vec::new();
    let mut min_sep = usize::MAX;
    let mut equivalent = 0usize;
    for name in &names {
        let (layered, arith) = dec::parse_name(name);
        let me = combos.iter().position(|c| *c == (layered, arith)).unwrap();
        for (j, c) in combos.iter().enumerate() {
            if j == me {
                continue;
            }
            // Jones clipping and degree-one clipping only exist in the flooding variable
            // update; under the layered schedule such arithmetics are the same function
            // as their plain sibling, so no input can separate them.
            let canon = |c: &(bool, &str)| -> (bool, String) {
                if c.0 {
                    (true, c.1.replace("Jones", "").replace("Deg1Clip", ""))
                } else {
                    (false, c.1.to_string())
                }
            };
            if canon(c) == canon(&combos[me]) {
                equivalent += 1;
                continue;
            }
            let diff = sigs[me].iter().zip(&sigs[j]).filter(|(a, b)| a != b).count();
            min_sep = min_sep.min(diff);
            if diff == 0 {
                inseparable.push(format!("{} vs {}{}", name, if c.0 { "HL" } else { "" }, c.1));
            }
        }
    }
    extra.insert("separation_min_differing_family_members".into(), json!(min_sep));
    extra.insert("inseparable_pairs".into(), json!(inseparable));
    extra.insert("pairs_equivalent_by_construction".into(), json!(equivalent));
    if !inseparable.is_empty() {
        machinery(&format!("C18: the family does not separate: {:?}", inseparable));
    }
}

fn replay_element(v: &Value, acc: &mut Acc) {
    match v["kind"].as_str() {
        Some("binding") if v.get("rows").is_some() => {
            let name = v["name"].as_str().unwrap();
            let n = v["n"].as_u64().unwrap() as usize;
            let rows: Vec<u64> = v["rows"].as_array().unwrap().iter().map(|x| x.as_u64().unwrap()).collect();
            let m = Small { r: rows.len(), n, rows };
            let llrs: Vec<f64> = v["llr_bits"].as_array().unwrap().iter().map(|x| f64::from_bits(x.as_u64().unwrap())).collect();
            let l = v["limit"].as_u64().unwrap() as usize;
            let (layered, arith) = dec::parse_name(name);
            acc.evals += 1;
            let rf = guard(|| dec::factory_build(name, m.sparse_var()).unwrap().decode(&llrs, l));
            let rd = guard(|| dec::direct_build(layered, arith, m.sparse_var()).decode(&llrs, l));
            if rf != rd {
                acc.violate(format!("binding:{}", name), format!("factory {:?} vs direct {:?}", rf.as_ref().map(dec::show), rd.as_ref().map(dec::show)), v.clone());
            }
        }
        _ => {
            let mut extra = serde_json::Map::new();
            check_names(acc);
            check_binding(acc, &mut extra);
        }
    }
}

pub fn run(run: &Run) -> i32 {
    let mut acc = Acc::new();
    let mut extra = serde_json::Map::new();
    if let Some(p) = &run.replay {
        let v: Value = serde_json::from_str(&std::fs::read_to_string(p).unwrap_or_else(|_| machinery("cannot read replay"))).unwrap_or_else(|_| machinery("bad replay json"));
        replay_element(&v["element"], &mut acc);
    } else {
        check_names(&mut acc);
        check_binding(&mut acc, &mut extra);
        acc.sample(|| json!({"name": "HLAminstari8PartialHardLimit", "means": ["horizontal_layered", "Aminstari8PartialHardLimit"]}));
    }
    finish(
        run,
        acc,
        Coverage {
            rule: "all 36 names (parse, print, command-line value list) exhaustively; every string at edit distance 1 over [A-Za-z0-9] from a name, case-folded and whitespace-padded variants, the 12 plausible non-existent HL names and a few literals (must be rejected unless the edit yields another name); behavioural binding: for each name the factory-built decoder vs the generic decoder built directly from (HL prefix => horizontal_layered, remainder => arithmetic type by the harness's own 24-arm match) on a family of 3 matrices x all non-codeword sign patterns at 6 magnitudes and boundary-value substitutions x limits {1,2,5}, plus a 700x1400 code with 4200 ones stored in a scrambled order (3 vectors x limits {1,5}) and 4-row matrices with 4097, 32769 and 65537 columns whose rows are stored out of column order. The family's separation of all 48 (schedule, arithmetic) combinations is measured (extra.separation_*). Non-trivial = call that ran iterations (binding) or string outside the name set (rejection).".into(),
            exhaustive: true,
            extra,
            graph: None,
            assumptions: vec!["'behaves exactly like' is decided on the separating family, not on all inputs".into()],
        },
    )
}
