//! C19 — the C interface is a faithful wrapper of the Rust encoder and
//! decoder. The eight exported `ldpc_toolbox_*` symbols are called through
//! `extern "C"` declarations. E-enum for the constructors, E-bfs (all call
//! sequences up to depth 3) for decoder handles, all inputs for encoder handles.

use crate::common::*;
use crate::dec;
use crate::mats::Small;
use ldpc_toolbox::encoder::Encoder;
use ldpc_toolbox::sparse::SparseMatrix;
use serde_json::{json, Value};
use std::ffi::{c_char, c_void, CString};

extern "C" {
    fn ldpc_toolbox_decoder_ctor(alist_file_path: *const c_char, implementation: *const c_char, puncturing: *const c_char) -> *mut c_void;
    fn ldpc_toolbox_decoder_ctor_alist_string(alist: *const c_char, implementation: *const c_char, puncturing: *const c_char) -> *mut c_void;
    fn ldpc_toolbox_decoder_dtor(decoder: *mut c_void);
    fn ldpc_toolbox_decoder_decode_f64(decoder: *mut c_void, output: *mut u8, output_len: usize, llrs: *const f64, llrs_len: usize, max_iterations: u32) -> i32;
    fn ldpc_toolbox_decoder_decode_f32(decoder: *mut c_void, output: *mut u8, output_len: usize, llrs: *const f32, llrs_len: usize, max_iterations: u32) -> i32;
    fn ldpc_toolbox_encoder_ctor(alist_file_path: *const c_char, puncturing: *const c_char) -> *mut c_void;
    fn ldpc_toolbox_encoder_ctor_alist_string(alist: *const c_char, puncturing: *const c_char) -> *mut c_void;
    fn ldpc_toolbox_encoder_dtor(encoder: *mut c_void);
    fn ldpc_toolbox_encoder_encode(encoder: *mut c_void, output: *mut u8, output_len: usize, input: *const u8, input_len: usize);
}

fn code36() -> Small {
    Small::from_rows(6, &[&[0, 1, 3, 5], &[1, 2, 4], &[0, 2, 4, 5]])
}

fn alists() -> Vec<(&'static str, String, bool, bool)> {
    // (label, text, parses, tail invertible)
    let valid36 = code36().sparse().alist();
    let stair35 = Small::from_rows(5, &[&[0, 2], &[1, 2, 3], &[0, 1, 3, 4]]).sparse().alist();
    let singular24 = Small::from_rows(4, &[&[0, 1, 2, 3], &[1, 2, 3]]).sparse().alist(); // tail cols 2,3: rows 11 / 11
    let truncated: String = valid36.lines().take(6).collect::<Vec<_>>().join("\n");
    let nonnumeric = {
        let mut l: Vec<String> = valid36.lines().map(|x| x.to_string()).collect();
        l[5] = format!("x {}", l[5]); // a column line
        l.join("\n")
    };
    let out_of_range = "2 2\n1 1\n1 1\n1 1\n5\n1\n1\n1\n".to_string();
    let v = vec![
        ("valid3x6", valid36, true, true),
        ("stair3x5", stair35, true, true),
        ("singular2x4", singular24, true, false),
        ("truncated", truncated, false, false),
        ("nonnumeric", nonnumeric, false, false),
        ("out_of_range", out_of_range, false, false),
        ("empty", String::new(), false, false),
    ];
    // the labels must say what the independent reference parser says
    for (label, text, parses, _) in &v {
        if crate::c08::ref_parse(text).is_ok() != *parses {
            machinery(&format!("C19: test alist {} is mislabelled", label));
        }
    }
    v
}

fn pattern_ok(s: &str) -> Option<Option<Vec<bool>>> {
    // Some(None) = no puncturing, Some(Some(p)) = pattern, None = malformed
    if s.is_empty() {
        return Some(None);
    }
    let mut v = Vec::new();
    for t in s.split(',') {
        match t {
            "0" => v.push(false),
            "1" => v.push(true),
            _ => return None,
        }
    }
    Some(Some(v))
}

fn cs(s: &str) -> CString {
    CString::new(s).unwrap_or_else(|_| machinery("NUL in test string"))
}

fn check_ctors(run: &Run, acc: &mut Acc) {
    let tmpdir = run.root.join(".build").join("tmp");
    let _ = std::fs::create_dir_all(&tmpdir);
    let mut impls: Vec<String> = dec::names();
    let nimpl = impls.len();
    impls.extend(["".to_string(), "phif64".into(), "HLPhif64 ".into(), "Nope".into(), "HLMinstarapproxi8Jones".into()]);
    let puncts = ["", "1,1,0", "1", "1,,0", "1,2", "a", "1,0,", ",1", "1, 0"];
    for (label, text, parses, invertible) in alists() {
        let path = tmpdir.join(format!("c19_{}_{}.alist", std::process::id(), label));
        std::fs::write(&path, &text).unwrap_or_else(|_| machinery("cannot write temp alist"));
        let pathc = cs(path.to_str().unwrap());
        let textc = cs(&text);
        for (ii, imp) in impls.iter().enumerate() {
            let impc = cs(imp);
            for p in puncts {
                let pc = cs(p);
                let pat = pattern_ok(p);
                let want_dec = parses && ii < nimpl && pat.is_some();
                for from_file in [false, true] {
                    acc.evals += 1;
                    let key = format!("capi:decoder_ctor:{}:{:?}:{:?}:{}", label, imp, p, if from_file { "file" } else { "string" });
                    let replay = json!({"kind": "ctors"});
                    let r = guard(|| unsafe {
                        let h = if from_file { ldpc_toolbox_decoder_ctor(pathc.as_ptr(), impc.as_ptr(), pc.as_ptr()) } else { ldpc_toolbox_decoder_ctor_alist_string(textc.as_ptr(), impc.as_ptr(), pc.as_ptr()) };
                        let isnull = h.is_null();
                        if !isnull {
                            ldpc_toolbox_decoder_dtor(h);
                        }
                        isnull
                    });
                    match r {
                        Err(e) => acc.violate(key, format!("constructor panicked: {}", e), replay),
                        Ok(isnull) => {
                            if isnull == want_dec {
                                acc.violate(key, format!("decoder constructor returned {} (alist parses: {}, implementation known: {}, pattern well-formed: {})", if isnull { "null" } else { "a handle" }, parses, ii < nimpl, pat.is_some()), replay);
                            } else if !want_dec {
                                acc.nontrivial += 1;
                            }
                        }
                    }
                }
            }
        }
        for p in puncts {
            let pc = cs(p);
            let pat = pattern_ok(p);
            let want_enc = parses && invertible && pat.is_some();
            for from_file in [false, true] {
                acc.evals += 1;
                let key = format!("capi:encoder_ctor:{}:{:?}:{}", label, p, if from_file { "file" } else { "string" });
                let replay = json!({"kind": "ctors"});
                let r = guard(|| unsafe {
                    let h = if from_file { ldpc_toolbox_encoder_ctor(pathc.as_ptr(), pc.as_ptr()) } else { ldpc_toolbox_encoder_ctor_alist_string(textc.as_ptr(), pc.as_ptr()) };
                    let isnull = h.is_null();
                    if !isnull {
                        ldpc_toolbox_encoder_dtor(h);
                    }
                    isnull
                });
                match r {
                    Err(e) => acc.violate(key, format!("constructor panicked: {}", e), replay),
                    Ok(isnull) => {
                        if isnull == want_enc {
                            acc.violate(key, format!("encoder constructor returned {} (alist parses: {}, tail invertible: {}, pattern well-formed: {})", if isnull { "null" } else { "a handle" }, parses, invertible, pat.is_some()), replay);
                        } else if !want_enc {
                            acc.nontrivial += 1;
                        }
                    }
                }
            }
        }
        let _ = std::fs::remove_file(&path);
    }
    // non-UTF-8 bytes in each string argument: never a live handle
    {
        let valid = cs(&code36().sparse().alist());
        let good_impl = cs("Phif64");
        let empty = cs("");
        let bads: Vec<CString> = [&b"\xff"[..], &b"1,1,\xff"[..], &b"1,\xc3,0"[..], &b"\xc3\x28"[..]].iter().map(|b| CString::new(b.to_vec()).unwrap()).collect();
        for bad in &bads {
            for which in 0..3 {
                acc.evals += 1;
                acc.nontrivial += 1;
                let (a, i, p) = match which {
                    0 => (&valid, &good_impl, bad),
                    1 => (&valid, bad, &empty),
                    _ => (bad, &good_impl, &empty),
                };
                let key = format!("capi:ctor:non-utf8:{:?}:arg{}", bad, which);
                let r = guard(|| unsafe {
                    let h = ldpc_toolbox_decoder_ctor_alist_string(a.as_ptr(), i.as_ptr(), p.as_ptr());
                    let dn = h.is_null();
                    if !dn {
                        ldpc_toolbox_decoder_dtor(h);
                    }
                    let en = if which != 1 {
                        let e = ldpc_toolbox_encoder_ctor_alist_string(a.as_ptr(), p.as_ptr());
                        let n = e.is_null();
                        if !n {
                            ldpc_toolbox_encoder_dtor(e);
                        }
                        n
                    } else {
                        true
                    };
                    (dn, en)
                });
                match r {
                    Err(e) => acc.violate(key, format!("constructor panicked: {}", e), json!({"kind": "ctors"})),
                    Ok((dn, en)) => {
                        if !dn || !en {
                            acc.violate(key, format!("a constructor returned a handle although argument {} ({:?}) is not valid (decoder null: {}, encoder null: {})", which, bad, dn, en), json!({"kind": "ctors"}));
                        }
                    }
                }
            }
        }
    }
    // unreadable file
    let missing = cs(tmpdir.join("does_not_exist.alist").to_str().unwrap());
    let (impc, pc) = (cs("Phif64"), cs(""));
    acc.evals += 2;
    unsafe {
        let h = ldpc_toolbox_decoder_ctor(missing.as_ptr(), impc.as_ptr(), pc.as_ptr());
        if !h.is_null() {
            acc.violate("capi:decoder_ctor:missing-file".into(), "decoder constructor returned a handle for an unreadable file".into(), json!({"kind": "ctors"}));
            ldpc_toolbox_decoder_dtor(h);
        }
        let h = ldpc_toolbox_encoder_ctor(missing.as_ptr(), pc.as_ptr());
        if !h.is_null() {
            acc.violate("capi:encoder_ctor:missing-file".into(), "encoder constructor returned a handle for an unreadable file".into(), json!({"kind": "ctors"}));
            ldpc_toolbox_encoder_dtor(h);
        }
    }
}

fn ref_depuncture(x: &[f64], pat: &Option<Vec<bool>>, n: usize) -> Vec<f64> {
    match pat {
        None => x.to_vec(),
        Some(p) => {
            let b = n / p.len();
            let mut out = vec![0.0; n];
            let mut j = 0;
            for (i, &keep) in p.iter().enumerate() {
                if keep {
                    out[i * b..(i + 1) * b].copy_from_slice(&x[j * b..(j + 1) * b]);
                    j += 1;
                }
            }
            out
        }
    }
}

#[derive(Clone)]
struct Call {
    f32in: bool,
    buf: usize,
    max_iter: u32,
    out_len: usize,
}

fn check_decoder_handles(name: &str, punct: &str, depth: usize, thorough: bool, acc: &mut Acc) {
    let m = code36();
    let (n, k) = (6usize, 3usize);
    let pat = pattern_ok(punct).unwrap();
    let n_tx = match &pat {
        Some(p) => n / p.len() * p.iter().filter(|&&b| b).count(),
        None => n,
    };
    // four LLR buffers (full length n; the transmitted part is the punctured view)
    let cw = m.codewords().into_iter().find(|&c| c != 0).unwrap();
    let sign = |c: u64, a: f64| -> Vec<f64> { (0..n).map(|j| if (c >> j) & 1 == 1 { -a } else { a }).collect() };
    let mut conv = sign(cw, 1.4);
    conv[1] = -conv[1];
    let fail: Vec<f64> = (0..n).map(|j| if j % 2 == 0 { 4.0 } else { -4.0 }).collect();
    let short = sign(cw, 2.0);
    let mut zeros = sign(cw, 0.7);
    zeros[0] = 0.0;
    zeros[2] = -0.0;
    zeros[3] = -zeros[3];
    let mut full: Vec<Vec<f64>> = vec![conv, fail, short, zeros];
    if thorough {
        full.push((0..n).map(|j| [1e30, -1e-46, 0.0625, -15.9, 0.3, -0.3][j % 6]).collect());
        full.push(vec![-0.2; n]);
    }
    let bufs: Vec<Vec<f64>> = full.iter().map(|v| v[..n_tx].to_vec()).collect();
    let mut calls = Vec::new();
    for f32in in [false, true] {
        for buf in 0..bufs.len() {
            for max_iter in [0u32, 1, 5] {
                for out_len in [k, n] {
                    calls.push(Call { f32in, buf, max_iter, out_len });
                }
            }
        }
    }
    let alist = cs(&m.sparse().alist());
    let (namec, pc) = (cs(name), cs(punct));
    // expected answer of each call: a fresh Rust decoder on the depunctured (f32-rounded if f32 input) LLRs
    let expected: Vec<(i32, Vec<u8>)> = calls
        .iter()
        .map(|c| {
            let x: Vec<f64> = if c.f32in { bufs[c.buf].iter().map(|&v| v as f32 as f64).collect() } else { bufs[c.buf].clone() };
            let dep = ref_depuncture(&x, &pat, n);
            let mut d = dec::factory_build(name, m.sparse()).unwrap();
            match d.decode(&dep, c.max_iter as usize) {
                Ok(o) => (o.iterations as i32, o.codeword[..c.out_len].to_vec()),
                Err(o) => (-1, o.codeword[..c.out_len].to_vec()),
            }
        })
        .collect();
    let ncalls = calls.len();
    let total: u64 = (1..=depth).map(|d| (ncalls as u64).pow(d as u32)).sum();
    let mut seq = vec![0usize; depth];
    for len in 1..=depth {
        let count = (ncalls as u64).pow(len as u32);
        for mut idx in 0..count {
            for s in seq.iter_mut().take(len) {
                *s = (idx % ncalls as u64) as usize;
                idx /= ncalls as u64;
            }
            let h = unsafe { ldpc_toolbox_decoder_ctor_alist_string(alist.as_ptr(), namec.as_ptr(), pc.as_ptr()) };
            if h.is_null() {
                acc.violate(format!("capi:decode:{}:{:?}:ctor", name, punct), "constructor returned null for valid arguments".into(), json!({"kind": "decoder", "name": name, "punct": punct}));
                return;
            }
            for (step, &ci) in seq[..len].iter().enumerate() {
                let c = &calls[ci];
                acc.evals += 1;
                let mut out = vec![0xAAu8; c.out_len];
                let r = guard(|| unsafe {
                    if c.f32in {
                        let x: Vec<f32> = bufs[c.buf].iter().map(|&v| v as f32).collect();
                        ldpc_toolbox_decoder_decode_f32(h, out.as_mut_ptr(), out.len(), x.as_ptr(), x.len(), c.max_iter)
                    } else {
                        ldpc_toolbox_decoder_decode_f64(h, out.as_mut_ptr(), out.len(), bufs[c.buf].as_ptr(), bufs[c.buf].len(), c.max_iter)
                    }
                });
                let (want_ret, want_out) = &expected[ci];
                let bad = match r {
                    Err(e) => Some(format!("decode panicked: {}", e)),
                    Ok(ret) => {
                        if ret != *want_ret {
                            Some(format!("returned {} but the Rust decoder gives {} (iterations on success, -1 on failure)", ret, want_ret))
                        } else if &out != want_out {
                            Some(format!("output {:?} but the leading {} bits of the Rust decoder's word are {:?}", out, c.out_len, want_out))
                        } else {
                            None
                        }
                    }
                };
                if let Some(b) = bad {
                    let describe: Vec<String> = seq[..=step].iter().map(|&i| format!("decode_{}(buf{},iter{},out{})", if calls[i].f32in { "f32" } else { "f64" }, calls[i].buf, calls[i].max_iter, calls[i].out_len)).collect();
                    acc.violate(format!("capi:decode:{}:{:?}:{:?}", name, punct, describe), format!("call #{} of {:?}: {}", step, describe, b), json!({"kind": "decoder", "name": name, "punct": punct}));
                    break;
                }
                if step > 0 {
                    acc.nontrivial += 1;
                }
            }
            unsafe { ldpc_toolbox_decoder_dtor(h) };
        }
    }
    acc.add("decoder_sequences", total);
}

fn check_encoder_handles(acc: &mut Acc) {
    for (label, m) in [("general3x6", code36()), ("stair3x5", Small::from_rows(5, &[&[0, 2], &[1, 2, 3], &[0, 1, 3, 4]]))] {
        let n = m.n;
        let k = n - m.r;
        let h: SparseMatrix = m.sparse();
        let enc = Encoder::from_h(&h).unwrap();
        let puncts: Vec<&str> = if n % 3 == 0 { vec!["", "1,1,0", "0,1,1", "1"] } else { vec!["", "1", "1,0,1,1,0"] };
        for p in puncts {
            let pat = pattern_ok(p).unwrap();
            let (alist, pc) = (cs(&h.alist()), cs(p));
            let handle = unsafe { ldpc_toolbox_encoder_ctor_alist_string(alist.as_ptr(), pc.as_ptr()) };
            if handle.is_null() {
                acc.violate(format!("capi:encode:{}:{:?}:ctor", label, p), "constructor returned null for valid arguments".into(), json!({"kind": "encoder"}));
                continue;
            }
            let bytes = [0u8, 1, 2, 255];
            for mut idx in 0..(4u64.pow(k as u32)) {
                let input: Vec<u8> = (0..k)
                    .map(|_| {
                        let b = bytes[(idx % 4) as usize];
                        idx /= 4;
                        b
                    })
                    .collect();
                acc.evals += 1;
                let msg: Vec<u8> = input.iter().map(|&b| u8::from(b == 1)).collect();
                let full = crate::codes::encode_bits(&enc, &msg);
                let want: Vec<u8> = match &pat {
                    None => full.clone(),
                    Some(pp) => {
                        let b = n / pp.len();
                        let mut o = Vec::new();
                        for (i, &keep) in pp.iter().enumerate() {
                            if keep {
                                o.extend_from_slice(&full[i * b..(i + 1) * b]);
                            }
                        }
                        o
                    }
                };
                // twice on the same handle: calls are independent
                for rep in 0..2 {
                    let mut out = vec![0xAAu8; want.len()];
                    let r = guard(|| unsafe { ldpc_toolbox_encoder_encode(handle, out.as_mut_ptr(), out.len(), input.as_ptr(), input.len()) });
                    let key = format!("capi:encode:{}:{:?}:{:?}", label, p, input);
                    match r {
                        Err(e) => {
                            acc.violate(key, format!("encode panicked: {}", e), json!({"kind": "encoder"}));
                            break;
                        }
                        Ok(()) => {
                            if out != want {
                                acc.violate(key, format!("C encoder wrote {:?}, the punctured Rust codeword is {:?} (repetition {})", out, want, rep), json!({"kind": "encoder"}));
                                break;
                            }
                        }
                    }
                }
                if pat.is_some() || input.iter().any(|&b| b > 1) {
                    acc.nontrivial += 1;
                }
                if idx == 0 && acc.samples.len() < 3 {
                    acc.sample(|| json!({"code": label, "puncturing": p, "input_bytes": input, "output": want}));
                }
            }
            unsafe { ldpc_toolbox_encoder_dtor(handle) };
        }
    }
}

/// Long codes: alist texts well beyond 4096 bytes (thorough: beyond 65536), passed as strings and as
/// files; one decode and one encode per handle, compared with the Rust decoder / encoder built from
/// the same text.
fn check_long_codes(run: &Run, acc: &mut Acc) {
    let sizes: Vec<(usize, usize)> = if run.thorough() { vec![(300, 600), (1200, 2400), (2700, 5400)] } else { vec![(300, 600), (1200, 2400)] };
    for (r, n) in sizes {
        let k = n - r;
        let mut h = SparseMatrix::new(r, n);
        for j in 0..k {
            for i in [(j * 7 + 1) % r, (j * 13 + 5) % r, (j * 29 + 11) % r] {
                h.insert(i, j);
            }
        }
        for i in 0..r {
            h.insert(i, k + i);
            if i > 0 {
                h.insert(i, k + i - 1);
            }
        }
        for (form, text) in [("padded", h.alist()), ("unpadded", h.alist_no_padding())] {
            let parsed = match SparseMatrix::from_alist(&text) {
                Ok(p) => p,
                Err(e) => machinery(&format!("C19: long alist does not parse: {}", e)),
            };
            let path = run.root.join(".build").join("tmp").join(format!("c19_{}_{}_{}.alist", std::process::id(), n, form));
            let _ = std::fs::create_dir_all(path.parent().unwrap());
            std::fs::write(&path, &text).unwrap_or_else(|_| machinery("cannot write temp file"));
            let mut x = 0x1357_9BDF_2468_ACE1u64 ^ (n as u64);
            let llrs: Vec<f64> = (0..n)
                .map(|_| {
                    x ^= x << 13;
                    x ^= x >> 7;
                    x ^= x << 17;
                    let mag = [0.6, 1.4, 2.2, 3.1, 4.5][(x >> 20) as usize % 5];
                    if (x >> 40) % 9 == 0 {
                        -mag
                    } else {
                        mag
                    }
                })
                .collect();
            for name in ["Phif64", "Minstarapproxi8Deg1Clip", "HLAminstarf32", "HLMinstarapproxi8"] {
                if !dec::names().iter().any(|x| x == name) {
                    machinery(&format!("C19: {} is not an implementation name", name));
                }
                for (punct, via_file) in [("", false), ("", true), ("1,1,0", false)] {
                    acc.evals += 1;
                    acc.nontrivial += 1;
                    let key = format!("capi:long:{}x{}:{}:{}:{:?}:{}", r, n, form, name, punct, if via_file { "file" } else { "string" });
                    let replay = json!({"kind": "long", "name": name});
                    let (namec, pc) = (cs(name), cs(punct));
                    let handle = unsafe {
                        if via_file {
                            let pathc = cs(path.to_str().unwrap());
                            ldpc_toolbox_decoder_ctor(pathc.as_ptr(), namec.as_ptr(), pc.as_ptr())
                        } else {
                            let textc = cs(&text);
                            ldpc_toolbox_decoder_ctor_alist_string(textc.as_ptr(), namec.as_ptr(), pc.as_ptr())
                        }
                    };
                    if handle.is_null() {
                        acc.violate(key, format!("decoder constructor returned null for a well-formed alist of {} bytes", text.len()), replay);
                        continue;
                    }
                    let pat = pattern_ok(punct).unwrap();
                    let tx: Vec<f64> = match &pat {
                        None => llrs.clone(),
                        Some(pp) => {
                            let b = n / pp.len();
                            (0..n).filter(|j| pp[j / b]).map(|j| llrs[j]).collect()
                        }
                    };
                    let dep = ref_depuncture(&tx, &pat, n);
                    let want = match dec::factory_build(name, parsed.clone()).unwrap().decode(&dep, 5) {
                        Ok(o) => (o.iterations as i32, o.codeword),
                        Err(o) => (-1, o.codeword),
                    };
                    let mut out = vec![0xAAu8; n];
                    let ret = guard(|| unsafe { ldpc_toolbox_decoder_decode_f64(handle, out.as_mut_ptr(), out.len(), tx.as_ptr(), tx.len(), 5) });
                    match ret {
                        Err(e) => acc.violate(key, format!("decode panicked: {}", e), replay),
                        Ok(rv) => {
                            if rv != want.0 || out != want.1 {
                                let pos = out.iter().zip(want.1.iter()).position(|(a, b)| a != b);
                                acc.violate(key, format!("C decoder returns {} (first differing bit {:?}), the Rust decoder built from the same text returns {}", rv, pos, want.0), replay);
                            }
                        }
                    }
                    unsafe { ldpc_toolbox_decoder_dtor(handle) };
                }
            }
            // encoder
            acc.evals += 1;
            acc.nontrivial += 1;
            let key = format!("capi:long:{}x{}:{}:encoder", r, n, form);
            let textc = cs(&text);
            let pc = cs("");
            let handle = unsafe { ldpc_toolbox_encoder_ctor_alist_string(textc.as_ptr(), pc.as_ptr()) };
            if handle.is_null() {
                acc.violate(key, format!("encoder constructor returned null for a well-formed alist of {} bytes", text.len()), json!({"kind": "long"}));
            } else {
                let enc = Encoder::from_h(&parsed).unwrap_or_else(|_| machinery("C19: long code has no encoder"));
                let msg: Vec<u8> = (0..k).map(|i| ((i * i + i / 3) % 2) as u8).collect();
                let want = crate::codes::encode_bits(&enc, &msg);
                let mut out = vec![0xAAu8; n];
                match guard(|| unsafe { ldpc_toolbox_encoder_encode(handle, out.as_mut_ptr(), out.len(), msg.as_ptr(), msg.len()) }) {
                    Err(e) => acc.violate(key, format!("encode panicked: {}", e), json!({"kind": "long"})),
                    Ok(()) => {
                        if out != want {
                            acc.violate(key, "C encoder output differs from the Rust encoder's codeword".into(), json!({"kind": "long"}));
                        }
                    }
                }
                unsafe { ldpc_toolbox_encoder_dtor(handle) };
            }
            let _ = std::fs::remove_file(&path);
        }
    }
}

/// Puncturing rates that are inexact in binary: for several codeword lengths, every pattern length
/// dividing it and every number of kept blocks (first-t and last-t arrangements), one decode through
/// the C interface against the Rust decoder on the depunctured LLRs.
fn check_rate_coincidences(run: &Run, acc: &mut Acc) {
    let lengths: Vec<usize> = if run.thorough() { vec![15, 21, 30, 33, 45, 60, 63, 90, 126] } else { vec![15, 21, 30, 45, 63] };
    for n in lengths {
        let r = n / 3;
        let k = n - r;
        let mut h = SparseMatrix::new(r, n);
        for i in 0..r {
            h.insert(i, i % k);
            h.insert(i, (i * 5 + 2) % k);
            h.insert(i, k + i);
            if i > 0 {
                h.insert(i, k + i - 1);
            }
        }
        let text = h.alist();
        let parsed = SparseMatrix::from_alist(&text).unwrap_or_else(|e| machinery(&format!("C19: {}", e)));
        let textc = cs(&text);
        let namec = cs("Phif64");
        for plen in 2..=n.min(32) {
            if n % plen != 0 {
                continue;
            }
            let b = n / plen;
            for t in 1..=plen {
                for last in [false, true] {
                    let pat: Vec<bool> = (0..plen).map(|i| if last { i >= plen - t } else { i < t }).collect();
                    let ps: String = pat.iter().map(|&x| if x { "1" } else { "0" }).collect::<Vec<_>>().join(",");
                    acc.evals += 1;
                    acc.nontrivial += 1;
                    let key = format!("capi:rate:n{}:{}", n, ps);
                    let replay = json!({"kind": "rate", "n": n, "pattern": ps});
                    let pc = cs(&ps);
                    let handle = unsafe { ldpc_toolbox_decoder_ctor_alist_string(textc.as_ptr(), namec.as_ptr(), pc.as_ptr()) };
                    if handle.is_null() {
                        acc.violate(key, "constructor returned null for a valid pattern".into(), replay);
                        continue;
                    }
                    let tx: Vec<f64> = (0..n).filter(|j| pat[j / b]).map(|j| if j % 7 == 3 { -1.5 } else { 2.5 }).collect();
                    let dep = ref_depuncture(&tx, &Some(pat.clone()), n);
                    let want = match dec::factory_build("Phif64", parsed.clone()).unwrap().decode(&dep, 3) {
                        Ok(o) => (o.iterations as i32, o.codeword),
                        Err(o) => (-1, o.codeword),
                    };
                    let mut out = vec![0xAAu8; n];
                    match guard(|| unsafe { ldpc_toolbox_decoder_decode_f64(handle, out.as_mut_ptr(), out.len(), tx.as_ptr(), tx.len(), 3) }) {
                        Err(e) => acc.violate(key, format!("decode panicked: {}", e), replay),
                        Ok(rv) => {
                            if rv != want.0 || out != want.1 {
                                acc.violate(key, format!("C decoder returns {} with {:?}..., the Rust decoder on the depunctured LLRs returns {} with {:?}...", rv, &out[..out.len().min(12)], want.0, &want.1[..want.1.len().min(12)]), replay);
                            }
                        }
                    }
                    unsafe { ldpc_toolbox_decoder_dtor(handle) };
                }
            }
        }
    }
}

pub fn run(run: &Run) -> i32 {
    let mut acc = Acc::new();
    let mut graph = (0u64, 0u64, 0u64);
    check_rate_coincidences(run, &mut acc);
    check_ctors(run, &mut acc);
    check_encoder_handles(&mut acc);
    check_long_codes(run, &mut acc);
    let depth = 3;
    let thorough = run.thorough();
    let names = dec::names();
    let mut jobs: Vec<(String, &'static str)> = Vec::new();
    for n in &names {
        for p in ["", "1,1,0"] {
            jobs.push((n.clone(), p));
        }
        // patterns whose last block is kept / whose first block is removed (a subset of the names keeps the run short)
        if n.contains("Phif64") || n.contains("Aminstari8") && !n.contains("Jones") {
            for p in ["0,1,1", "1,0,1", "0,1"] {
                jobs.push((n.clone(), p));
            }
        }
    }
    let a = par_items(&jobs, |(n, p), a| check_decoder_handles(n, p, depth, thorough, a));
    graph.1 = a.counters.get("decoder_sequences").cloned().unwrap_or(0);
    graph.0 = graph.1;
    graph.2 = graph.1;
    acc = acc.merge(a);
    acc.sample(|| json!({"handle_history": ["decode_f64(buf0,iter5,out3)", "decode_f32(buf1,iter0,out6)"], "implementation": "HLAminstari8", "puncturing": "1,1,0"}));
    finish(
        run,
        acc,
        Coverage {
            rule: "inexact puncturing rates: codeword lengths 15, 21, 30, 45, 63 (thorough to 126) x every pattern length dividing them x every number of kept blocks (first-t / last-t), one decode each against the Rust decoder; long codes: 300x600 and 1200x2400 (thorough 2700x5400) staircase codes whose alist text has 13 k - 250 k bytes, padded and unpadded, through the string and the file constructor, 4 implementations, with and without puncturing: one decode and one encode per handle against the Rust decoder / encoder built from the same text; constructors: 7 alist texts (valid 3x6, staircase 3x5, singular tail, truncated, non-numeric, out-of-range index, empty) x text and file variants x (36 names + 5 non-names) x 9 puncturing strings for the decoder, x 9 puncturing strings for the encoder, plus an unreadable path and non-UTF-8 byte strings in every argument position: null exactly when a Rust-side prerequisite fails; decoder handles: for each of 36 names x {no puncturing, '1,1,0'} (plus '0,1,1', '1,0,1', '0,1' for a subset of names) on the 3x6 code, EVERY call sequence of length <= 3 over 48 (72 thorough) calls (f64/f32 x 4 (6) LLR buffers x max_iterations {0,1,5} x output_len {k, n}), each call compared with a fresh Rust decoder on the depunctured (f32-widened) LLRs; encoder handles: every input in {0,1,2,255}^k on two codes x puncturing patterns, twice per handle. states/transitions = handle call sequences executed. Non-trivial = call made on a handle that has already been used / rejected constructor / punctured or non-binary encoder input.".into(),
            exhaustive: true,
            extra: serde_json::Map::new(),
            graph: Some(graph),
            assumptions: vec![
                "buffers passed have exactly the documented lengths; wrong lengths are undefined behaviour of the C contract and are not exercised".into(),
                "puncturing patterns without any kept block are excluded (precondition of the puncturer)".into(),
            ],
        },
    )
}
