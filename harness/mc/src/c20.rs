//! C20 — the command-line tool emits exactly what the library computes.
//! E-enum over argument menus of the real binary (built from the working tree
//! with the verification guard OFF); every invocation under a watchdog.

use crate::codes::encode_bits;
use crate::common::*;
use crate::mats::{matrix_digest, Small};
use ldpc_toolbox::codes::ccsds::{AR4JACode, AR4JAInfoSize, AR4JARate, C2Code};
use ldpc_toolbox::codes::dvbs2::Code;
use ldpc_toolbox::encoder::Encoder;
use ldpc_toolbox::mackay_neal::{Config as MnConfig, FillPolicy};
use ldpc_toolbox::peg::Config as PegConfig;
use ldpc_toolbox::sparse::SparseMatrix;
use ldpc_toolbox::systematic::parity_to_systematic;
use serde_json::{json, Value};
use std::io::Read;
use std::path::PathBuf;
use std::process::{Command, Stdio};
use std::time::{Duration, Instant};

pub struct Out {
    pub status: Option<i32>,
    pub stdout: String,
    pub stderr: String,
    pub timed_out: bool,
}

fn cli() -> PathBuf {
    PathBuf::from(std::env::var("VERIF_CLI").unwrap_or_else(|_| machinery("VERIF_CLI is not set (run through ./check)")))
}

pub fn run_cli(args: &[String], secs: u64) -> Out {
    let mut child = Command::new(cli())
        .args(args)
        .stdin(Stdio::null())
        .stdout(Stdio::piped())
        .stderr(Stdio::piped())
        .env_remove("RUST_BACKTRACE")
        .spawn()
        .unwrap_or_else(|e| machinery(&format!("cannot start the CLI binary: {}", e)));
    let mut so = child.stdout.take().unwrap();
    let mut se = child.stderr.take().unwrap();
    let t1 = std::thread::spawn(move || {
        let mut b = Vec::new();
        let _ = so.read_to_end(&mut b);
        b
    });
    let t2 = std::thread::spawn(move || {
        let mut b = Vec::new();
        let _ = se.read_to_end(&mut b);
        b
    });
    let deadline = Instant::now() + Duration::from_secs(secs);
    let mut timed_out = false;
    let status = loop {
        match child.try_wait() {
            Ok(Some(s)) => break s.code(),
            Ok(None) => {
                if Instant::now() > deadline {
                    let _ = child.kill();
                    let _ = child.wait();
                    timed_out = true;
                    break None;
                }
                std::thread::sleep(Duration::from_millis(2));
            }
            Err(_) => break None,
        }
    };
    let stdout = String::from_utf8_lossy(&t1.join().unwrap_or_default()).to_string();
    let stderr = String::from_utf8_lossy(&t2.join().unwrap_or_default()).to_string();
    Out { status, stdout, stderr, timed_out }
}

pub fn sargs(v: &[&str]) -> Vec<String> {
    v.iter().map(|s| s.to_string()).collect()
}

/// An invalid invocation: non-zero status, a message, no panic text, no hang.
fn expect_failure(args: &[String], what: &str, acc: &mut Acc) {
    acc.evals += 1;
    acc.nontrivial += 1;
    let key = format!("cli:{:?}", args);
    let replay = json!({"kind": "cli", "args": args});
    let o = run_cli(args, 60);
    if o.timed_out {
        acc.violate(key, format!("{}: no exit within 60 s", what), replay);
    } else if o.status == Some(0) || o.status.is_none() {
        acc.violate(key, format!("{}: exit status {:?} (expected a non-zero status)", what, o.status), replay);
    } else if o.stderr.contains("panicked at") || o.stdout.contains("panicked at") {
        acc.violate(key, format!("{}: the tool panicked: {}", what, o.stderr.lines().take(3).collect::<Vec<_>>().join(" | ")), replay);
    } else if o.stderr.trim().is_empty() && o.stdout.trim().is_empty() {
        acc.violate(key, format!("{}: non-zero status without any message", what), replay);
    }
}

/// A valid invocation whose stdout must be the alist of `want`.
fn expect_matrix(args: &[String], want: &SparseMatrix, acc: &mut Acc) -> Option<Out> {
    acc.evals += 1;
    acc.nontrivial += 1;
    let key = format!("cli:{:?}", args);
    let replay = json!({"kind": "cli", "args": args});
    let o = run_cli(args, 120);
    if o.timed_out || o.status != Some(0) {
        acc.violate(key, format!("exit status {:?} (timed out: {}), stderr: {}", o.status, o.timed_out, o.stderr.lines().take(3).collect::<Vec<_>>().join(" | ")), replay);
        return None;
    }
    match SparseMatrix::from_alist(&o.stdout) {
        Err(e) => {
            acc.violate(key, format!("stdout is not an alist: {}", e), replay);
            None
        }
        Ok(h) => {
            if matrix_digest(&h) != matrix_digest(want) {
                acc.violate(key, format!("printed matrix ({}x{}) is not the matrix the library constructs ({}x{})", h.num_rows(), h.num_cols(), want.num_rows(), want.num_cols()), replay);
                return None;
            }
            // and the text is the library's alist text (the tool may add a final newline)
            if o.stdout.trim_end() != want.alist().trim_end() {
                acc.violate(key, "printed text differs from the library's alist text".into(), replay);
                return None;
            }
            acc.outcome(&matrix_digest(&h));
            Some(o)
        }
    }
}

/// Girth of a matrix by the harness's own reference (not the library's BFS): exact for small
/// matrices, and for large ones exact whenever the girth is 4 or 6 (None = cannot tell).
fn reference_girth(h: &SparseMatrix) -> Option<Option<usize>> {
    if h.num_rows() + h.num_cols() <= 400 {
        return Some(crate::mats::RefGraph::from_sparse(h).girth());
    }
    if !crate::codes::four_cycle_free(h) {
        return Some(Some(4));
    }
    if crate::codes::has_six_cycle(h) {
        return Some(Some(6));
    }
    None
}

fn expect_girth(args: &[String], want: Option<usize>, acc: &mut Acc) {
    acc.evals += 1;
    acc.nontrivial += 1;
    let key = format!("cli:{:?}", args);
    let replay = json!({"kind": "cli", "args": args});
    let o = run_cli(args, 300);
    let want_line = match want {
        Some(g) => format!("Code girth = {}", g),
        None => "Code girth is infinite".to_string(),
    };
    if o.status != Some(0) || o.stdout.trim() != want_line {
        acc.violate(key, format!("status {:?}, stdout {:?}; expected {:?}", o.status, o.stdout.trim(), want_line), replay);
    }
}

fn dvbs2(thorough: bool, acc: &mut Acc) {
    let rates = ["1/4", "1/3", "2/5", "1/2", "3/5", "2/3", "3/4", "4/5", "5/6", "8/9", "9/10"];
    let codes: Vec<Code> = enum_iterator::all::<Code>().collect();
    let mut jobs: Vec<(Vec<String>, Option<Code>)> = Vec::new();
    for short in [false, true] {
        for (i, r) in rates.iter().enumerate() {
            let mut a = sargs(&["dvbs2", "--rate", r]);
            if short {
                a.push("--short".into());
            }
            let code = if short && *r == "9/10" { None } else { Some(codes[if short { 11 + i } else { i }]) };
            jobs.push((a, code));
        }
    }
    // the harness's own mapping: variant names must say the same thing
    for (a, c) in &jobs {
        if let Some(c) = c {
            let n = format!("{:?}", c);
            let want = format!("R{}{}", a[2].replace('/', "_"), if a.len() > 3 { "short" } else { "" });
            if n != want {
                machinery(&format!("C20: rate table mismatch {} vs {}", n, want));
            }
        }
    }
    let part = par_items(&jobs, |(a, c), acc| match c {
        Some(code) => {
            expect_matrix(a, &code.h(), acc);
        }
        None => expect_failure(a, "rate 9/10 does not exist for short frames", acc),
    });
    let t = std::mem::take(acc);
    *acc = t.merge(part);
    for bad in [sargs(&["dvbs2", "--rate", "7/8"]), sargs(&["dvbs2", "--rate", ""]), sargs(&["dvbs2", "--rate", "1/2", "--bogus"]), sargs(&["dvbs2"])] {
        expect_failure(&bad, "invalid dvbs2 arguments", acc);
    }
    expect_girth(&sargs(&["dvbs2", "--rate", "1/2", "--girth"]), Some(6), acc);
    if let Some(g) = reference_girth(&Code::R1_2short.h()) {
        expect_girth(&sargs(&["dvbs2", "--rate", "1/2", "--short", "--girth"]), g, acc);
    }
    if thorough {
        let g: Vec<(Vec<String>, Option<usize>)> = jobs.iter().filter(|(_, c)| c.is_some()).map(|(a, c)| {
            let mut a = a.clone();
            a.push("--girth".into());
            (a, reference_girth(&c.unwrap().h()).unwrap_or_else(|| c.unwrap().h().girth()))
        }).collect();
        let part = par_items(&g, |(a, w), acc| expect_girth(a, *w, acc));
        let t = std::mem::take(acc);
        *acc = t.merge(part);
    }
}

fn ccsds(thorough: bool, acc: &mut Acc) {
    let rates = [("1/2", Some(AR4JARate::R1_2)), ("2/3", Some(AR4JARate::R2_3)), ("4/5", Some(AR4JARate::R4_5)), ("3/4", None)];
    let sizes = [(1024usize, Some(AR4JAInfoSize::K1024)), (4096, Some(AR4JAInfoSize::K4096)), (16384, Some(AR4JAInfoSize::K16384)), (2048, None)];
    let mut jobs = Vec::new();
    for (r, rr) in rates.iter() {
        for (s, ss) in sizes.iter() {
            if *s == 16384 && !thorough && *r != "4/5" {
                continue;
            }
            jobs.push((sargs(&["ccsds", "--rate", r, "--block-size", &s.to_string()]), rr.zip(*ss)));
        }
    }
    let part = par_items(&jobs, |(a, c), acc| match c {
        Some((r, k)) => {
            expect_matrix(a, &AR4JACode::new(*r, *k).h(), acc);
        }
        None => expect_failure(a, "invalid CCSDS rate or block size", acc),
    });
    let t = std::mem::take(acc);
    *acc = t.merge(part);
    expect_failure(&sargs(&["ccsds", "--rate", "1/2"]), "missing block size", acc);
    expect_failure(&sargs(&["ccsds", "--rate", "1/2", "--block-size", "abc"]), "non-numeric block size", acc);
    expect_girth(&sargs(&["ccsds", "--rate", "1/2", "--block-size", "1024", "--girth"]), Some(6), acc);
    for (r, rr) in [("4/5", AR4JARate::R4_5), ("2/3", AR4JARate::R2_3)] {
        for (k, kk) in [(1024usize, AR4JAInfoSize::K1024), (4096, AR4JAInfoSize::K4096)] {
            if let Some(g) = reference_girth(&AR4JACode::new(rr, kk).h()) {
                expect_girth(&sargs(&["ccsds", "--rate", r, "--block-size", &k.to_string(), "--girth"]), g, acc);
            }
        }
    }
    expect_matrix(&sargs(&["ccsds-c2"]), &C2Code::new().h(), acc);
    expect_failure(&sargs(&["ccsds-c2", "extra"]), "unexpected argument", acc);
}

fn constructions(run: &Run, thorough: bool, acc: &mut Acc) {
    let base = run.seed.wrapping_mul(64);
    let mut jobs: Vec<Value> = Vec::new();
    let dims: Vec<(usize, usize)> = if thorough { vec![(3, 6), (4, 8), (5, 10), (6, 9), (4, 12)] } else { vec![(3, 6), (4, 8), (5, 10)] };
    for &(r, c) in &dims {
        for wc in 2..=3usize {
            let wr = (c * wc).div_ceil(r) + 1;
            for uniform in [false, true] {
                for mg in [None, Some(4usize), Some(6)] {
                    for search in [false, true] {
                        for s in 0..3u64 {
                            jobs.push(json!({"t": "mn", "r": r, "c": c, "wr": wr, "wc": wc, "uniform": uniform, "mg": mg, "search": search, "seed": base + s}));
                        }
                    }
                }
            }
            for s in 0..3u64 {
                jobs.push(json!({"t": "peg", "r": r, "c": c, "wc": wc, "seed": base + s, "girth": s == 0}));
            }
        }
    }
    let part = par_items(&jobs, |j, acc| {
        let u = |k: &str| j[k].as_u64().unwrap() as usize;
        if j["t"] == "peg" {
            let conf = PegConfig { nrows: u("r"), ncols: u("c"), wc: u("wc") };
            let mut a = sargs(&["peg", &u("r").to_string(), &u("c").to_string(), &u("wc").to_string(), &j["seed"].as_u64().unwrap().to_string()]);
            if j["girth"].as_bool().unwrap() {
                a.push("--girth".into());
            }
            match conf.run(j["seed"].as_u64().unwrap()) {
                Ok(h) => {
                    if let Some(o) = expect_matrix(&a, &h, acc) {
                        if j["girth"].as_bool().unwrap() {
                            let want = match reference_girth(&h).unwrap_or_else(|| h.girth()) {
                                Some(g) => format!("Code girth = {}", g),
                                None => "Code girth = infinity (there are no cycles)".to_string(),
                            };
                            if o.stderr.trim() != want {
                                acc.violate(format!("cli:{:?}:girth", a), format!("stderr {:?}, expected {:?}", o.stderr.trim(), want), json!({"kind": "cli", "args": a}));
                            }
                        }
                    }
                }
                Err(_) => expect_failure(&a, "PEG construction fails in the library", acc),
            }
        } else {
            let conf = MnConfig {
                nrows: u("r"),
                ncols: u("c"),
                wr: u("wr"),
                wc: u("wc"),
                backtrack_cols: 1,
                backtrack_trials: 4,
                min_girth: j["mg"].as_u64().map(|x| x as usize),
                girth_trials: 20,
                fill_policy: if j["uniform"].as_bool().unwrap() { FillPolicy::Uniform } else { FillPolicy::Random },
            };
            let seed = j["seed"].as_u64().unwrap();
            let mut a = sargs(&["mackay-neal", &u("r").to_string(), &u("c").to_string(), &u("wr").to_string(), &u("wc").to_string(), &seed.to_string(), "--backtrack-cols", "1", "--backtrack-trials", "4", "--girth-trials", "20"]);
            if let Some(g) = conf.min_girth {
                a.push("--min-girth".into());
                a.push(g.to_string());
            }
            if conf.fill_policy == FillPolicy::Uniform {
                a.push("--uniform".into());
            }
            if j["search"].as_bool().unwrap() {
                a.push("--search".into());
                a.push("--seed-trials".into());
                a.push("20".into());
                let any = (seed..seed + 20).any(|s| conf.run(s).is_ok());
                if !any {
                    expect_failure(&a, "no seed in range succeeds", acc);
                    return;
                }
                acc.evals += 1;
                acc.nontrivial += 1;
                let o = run_cli(&a, 120);
                let key = format!("cli:{:?}", a);
                let replay = json!({"kind": "cli", "args": a});
                let printed = o.stderr.lines().find_map(|l| l.strip_prefix("seed = ").and_then(|x| x.trim().parse::<u64>().ok()));
                match (o.status, printed) {
                    (Some(0), Some(s)) if s >= seed && s < seed + 20 => match (conf.run(s), SparseMatrix::from_alist(&o.stdout)) {
                        (Ok(h), Ok(p)) if matrix_digest(&h) == matrix_digest(&p) => {}
                        _ => acc.violate(key, format!("--search printed seed {} but the matrix on stdout is not what that seed produces", s), replay),
                    },
                    other => acc.violate(key, format!("--search: status/seed {:?}, stderr {:?}", other, o.stderr.trim()), replay),
                }
            } else {
                match conf.run(seed) {
                    Ok(h) => {
                        expect_matrix(&a, &h, acc);
                    }
                    Err(_) => expect_failure(&a, "MacKay-Neal construction fails in the library", acc),
                }
            }
        }
    });
    let t = std::mem::take(acc);
    *acc = t.merge(part);
    expect_failure(&sargs(&["peg", "3", "6", "x", "1"]), "non-numeric argument", acc);
    expect_failure(&sargs(&["mackay-neal", "3", "6", "4"]), "missing arguments", acc);
}

fn tmp(run: &Run, name: &str) -> PathBuf {
    let d = run.root.join(".build").join("tmp");
    let _ = std::fs::create_dir_all(&d);
    d.join(format!("c20_{}_{}", std::process::id(), name))
}

fn systematic(run: &Run, thorough: bool, acc: &mut Acc) {
    let mut jobs: Vec<(usize, usize, u64)> = Vec::new();
    for mask in 0..256u64 {
        jobs.push((2, 4, mask));
    }
    for mask in 0..4096u64 {
        if thorough || mask % 7 == 3 {
            jobs.push((3, 4, mask));
        }
    }
    for mask in 0..512u64 {
        if thorough || mask % 5 == 1 {
            jobs.push((3, 3, mask));
        }
    }
    let part = par_items(&jobs, |&(r, n, mask), acc| {
        let m = Small::from_mask(r, n, mask);
        let h = m.sparse();
        let path = tmp(run, &format!("sys_{}_{}_{}.alist", r, n, mask));
        std::fs::write(&path, h.alist()).unwrap_or_else(|_| machinery("cannot write temp file"));
        let a = sargs(&["systematic", path.to_str().unwrap()]);
        match guard(|| parity_to_systematic(&h)) {
            Ok(Ok(want)) => {
                expect_matrix(&a, &want, acc);
            }
            Ok(Err(e)) => {
                acc.evals += 1;
                acc.nontrivial += 1;
                let o = run_cli(&a, 60);
                if o.status == Some(0) || o.status.is_none() || o.stderr.contains("panicked at") || !o.stderr.contains(&e.to_string()) {
                    acc.violate(format!("cli:systematic:{}", m.alist_like()), format!("rank-deficient input: status {:?}, stderr {:?}; expected a non-zero status with the message {:?}", o.status, o.stderr.trim(), e.to_string()), json!({"kind": "cli", "args": a}));
                }
            }
            Err(_) => acc.count("library_panics_on_systematic_input"),
        }
        let _ = std::fs::remove_file(&path);
    });
    let t = std::mem::take(acc);
    *acc = t.merge(part);
    expect_failure(&sargs(&["systematic", "/nonexistent/file.alist"]), "missing file", acc);
}

fn encode(run: &Run, thorough: bool, acc: &mut Acc) {
    let codes: Vec<(&str, Small)> = vec![
        ("general3x9", Small::from_rows(9, &[&[0, 1, 2, 6, 8], &[2, 3, 4, 7], &[0, 4, 5, 7, 8]])),
        ("stair3x5", Small::from_rows(5, &[&[0, 2], &[1, 2, 3], &[0, 1, 3, 4]])),
        (
            "dense4x12",
            Small::from_rows(12, &[&[0, 1, 4, 5, 6, 7, 8, 10, 11], &[0, 2, 3, 4, 5, 7, 8, 9, 10], &[0, 1, 2, 3, 5, 6, 8, 9, 11], &[1, 2, 3, 4, 6, 7, 9, 10, 11]]),
        ),
    ];
    let mut jobs: Vec<Value> = Vec::new();
    for (ci, (_, m)) in codes.iter().enumerate() {
        let n = m.n;
        let k = n - m.r;
        let mut pats: Vec<Option<String>> = vec![None];
        let pmax = if n == 9 { 9 } else if thorough { 6 } else { 4 };
        for p in 1..=pmax {
            if n % p != 0 {
                continue;
            }
            for bits in 1u32..(1 << p) {
                pats.push(Some((0..p).map(|i| if (bits >> i) & 1 == 1 { "1" } else { "0" }).collect::<Vec<_>>().join(",")));
            }
        }
        for pat in pats {
            for words in 0..=2usize {
                let mut trailings = vec![0usize, 1, k - 1];
                trailings.sort_unstable();
                trailings.dedup();
                for trailing in trailings {
                    for fill in 0..if thorough { 4 } else { 2 } {
                        jobs.push(json!({"code": ci, "pattern": pat, "words": words, "trailing": trailing, "fill": fill}));
                    }
                }
            }
        }
    }
    // long inputs: sizes that cross the usual I/O chunk sizes (4096, 8192, 65536 bytes) with a word
    // length that divides none of them
    for (ci, (_, m)) in codes.iter().enumerate() {
        let k = m.n - m.r;
        for target in if thorough { vec![4096usize, 8192, 16384, 65536, 131072] } else { vec![8192usize, 65536] } {
            for pat in [None, Some("1")] {
                let words = target / k + 3;
                jobs.push(json!({"code": ci, "pattern": pat, "words": words, "trailing": if ci == 0 { 1 } else { 0 }, "fill": 1}));
            }
        }
    }
    let part = par_items(&jobs, |j, acc| {
        let (label, m) = &codes[j["code"].as_u64().unwrap() as usize];
        let n = m.n;
        let k = n - m.r;
        let h = m.sparse();
        let enc = Encoder::from_h(&h).unwrap();
        let words = j["words"].as_u64().unwrap() as usize;
        let trailing = j["trailing"].as_u64().unwrap() as usize;
        let fill = j["fill"].as_u64().unwrap() as usize;
        let bytes = [0u8, 1, 2, 255];
        let total = words * k + trailing;
        let input: Vec<u8> = (0..total).map(|i| bytes[(i * 7 + fill * 3 + i / k) % if fill % 2 == 0 { 2 } else { 4 }]).collect();
        let tag = format!("{}_{}_{}_{}_{}", label, j["pattern"].as_str().unwrap_or("none").replace(',', ""), words, trailing, fill);
        let (apath, ipath, opath) = (tmp(run, &format!("enc_{}.alist", tag)), tmp(run, &format!("enc_{}.in", tag)), tmp(run, &format!("enc_{}.out", tag)));
        std::fs::write(&apath, h.alist()).unwrap();
        std::fs::write(&ipath, &input).unwrap();
        let _ = std::fs::remove_file(&opath);
        let mut a = sargs(&["encode", apath.to_str().unwrap(), ipath.to_str().unwrap(), opath.to_str().unwrap()]);
        let pat: Option<Vec<bool>> = j["pattern"].as_str().map(|s| s.split(',').map(|t| t == "1").collect());
        if let Some(p) = j["pattern"].as_str() {
            a.push("--puncturing".into());
            a.push(p.to_string());
        }
        let mut want: Vec<u8> = Vec::new();
        for w in 0..words {
            let msg: Vec<u8> = input[w * k..(w + 1) * k].iter().map(|&b| u8::from(b == 1)).collect();
            let cw = encode_bits(&enc, &msg);
            match &pat {
                None => want.extend(cw),
                Some(p) => {
                    let b = n / p.len();
                    for (i, &keep) in p.iter().enumerate() {
                        if keep {
                            want.extend_from_slice(&cw[i * b..(i + 1) * b]);
                        }
                    }
                }
            }
        }
        acc.evals += 1;
        if words > 0 {
            acc.nontrivial += 1;
        }
        let o = run_cli(&a, 60);
        let key = format!("cli:encode:{}", tag);
        let replay = if input.len() <= 64 { json!({"kind": "cli", "args": a, "input": input}) } else { json!({"kind": "cli", "args": a, "input_bytes": input.len(), "input_rule": "bytes[(i*7 + fill*3 + i/k) % (2 if fill even else 4)] of [0,1,2,255]"}) };
        let got = std::fs::read(&opath);
        match (o.status, got) {
            (Some(0), Ok(g)) => {
                if g != want {
                    acc.violate(key, format!("output file has {} bytes {:?}; the (punctured) codewords of the {} complete input words are {} bytes {:?}", g.len(), &g[..g.len().min(40)], words, want.len(), &want[..want.len().min(40)]), replay);
                }
            }
            (s, g) => acc.violate(key, format!("status {:?}, output file readable: {}, stderr {:?}", s, g.is_ok(), o.stderr.trim()), replay),
        }
        for p in [apath, ipath, opath] {
            let _ = std::fs::remove_file(p);
        }
    });
    let t = std::mem::take(acc);
    *acc = t.merge(part);
    // word lengths just past the usual buffer sizes: single-parity-check codes with k = 8193 .. 65537
    // (thorough 131073), two complete words and a trailing byte
    {
        let ks: Vec<usize> = if thorough { vec![4097, 8193, 16385, 32769, 65535, 65536, 65537, 131073] } else { vec![8193, 16385, 32769, 65537] };
        let part = par_items(&ks, |&k, acc| {
            let n = k + 1;
            let mut h = SparseMatrix::new(1, n);
            for j in 0..n {
                h.insert(0, j);
            }
            let apath = tmp(run, &format!("enc_spc{}.alist", k));
            let ipath = tmp(run, &format!("enc_spc{}.in", k));
            let opath = tmp(run, &format!("enc_spc{}.out", k));
            std::fs::write(&apath, h.alist()).unwrap();
            let input: Vec<u8> = (0..2 * k + 1).map(|i| u8::from((i * i + i / 5) % 3 == 0)).collect();
            std::fs::write(&ipath, &input).unwrap();
            let _ = std::fs::remove_file(&opath);
            let a = sargs(&["encode", apath.to_str().unwrap(), ipath.to_str().unwrap(), opath.to_str().unwrap()]);
            let mut want: Vec<u8> = Vec::new();
            for w in 0..2 {
                let msg = &input[w * k..(w + 1) * k];
                want.extend_from_slice(msg);
                want.push(msg.iter().fold(0u8, |p, &b| p ^ b));
            }
            acc.evals += 1;
            acc.nontrivial += 1;
            let o = run_cli(&a, 120);
            let key = format!("cli:encode:single-parity-check-k{}", k);
            let replay = json!({"kind": "cli", "args": a, "input_bytes": input.len()});
            match (o.status, std::fs::read(&opath)) {
                (Some(0), Ok(g)) => {
                    if g != want {
                        let pos = g.iter().zip(want.iter()).position(|(x, y)| x != y);
                        acc.violate(key, format!("output file has {} bytes, the codewords of the 2 complete input words are {} bytes (first differing byte {:?})", g.len(), want.len(), pos), replay);
                    }
                }
                (st, g) => acc.violate(key, format!("status {:?}, output file readable: {}, stderr {:?}", st, g.is_ok(), o.stderr.trim()), replay),
            }
            for p in [apath, ipath, opath] {
                let _ = std::fs::remove_file(p);
            }
        });
        let t = std::mem::take(acc);
        *acc = t.merge(part);
    }
    // invalid invocations
    let (_, m) = &codes[1];
    let apath = tmp(run, "enc_bad.alist");
    std::fs::write(&apath, m.sparse().alist()).unwrap();
    let ipath = tmp(run, "enc_bad.in");
    std::fs::write(&ipath, [0u8, 1]).unwrap();
    let opath = tmp(run, "enc_bad.out");
    let a = |extra: &[&str]| -> Vec<String> {
        let mut v = sargs(&["encode", apath.to_str().unwrap(), ipath.to_str().unwrap(), opath.to_str().unwrap()]);
        v.extend(extra.iter().map(|s| s.to_string()));
        v
    };
    expect_failure(&a(&["--puncturing", "1,x,0"]), "malformed puncturing pattern", acc);
    expect_failure(&a(&["--puncturing", "1,0"]), "pattern length does not divide the codeword", acc);
    expect_failure(&a(&["--puncturing", "1,1"]), "all-ones pattern whose length does not divide the codeword", acc);
    expect_failure(&a(&["--puncturing", "1,1,1"]), "all-ones pattern whose length does not divide the codeword", acc);
    expect_failure(&sargs(&["encode", apath.to_str().unwrap(), "/nonexistent/in", opath.to_str().unwrap()]), "missing input file", acc);
    expect_failure(&sargs(&["encode", "/nonexistent/a.alist", ipath.to_str().unwrap(), opath.to_str().unwrap()]), "missing alist file", acc);
    for p in [apath, ipath, opath] {
        let _ = std::fs::remove_file(p);
    }
}

fn ber(run: &Run, thorough: bool, acc: &mut Acc) {
    let c35 = Small::from_rows(5, &[&[0, 2], &[1, 2, 3], &[0, 1, 3, 4]]);
    let c36 = Small::from_rows(6, &[&[0, 1, 3, 5], &[1, 2, 4], &[0, 2, 4, 5]]);
    let mut jobs: Vec<Value> = Vec::new();
    for (grid, npts) in [((-4.0, -4.0, 1.0), 1usize), ((-4.0, -3.0, 0.5), 3), ((-4.0, -2.0, 1.0), 3), ((-3.5, -2.0, 0.75), 3)] {
        for psk8 in [false, true] {
            for bch in [false, true] {
                for dec in if thorough { vec!["Phif64", "HLAminstari8", "Minstarapproxi8Jones"] } else { vec!["Phif64", "HLAminstari8"] } {
                    jobs.push(json!({"grid": [grid.0, grid.1, grid.2], "npts": npts, "psk8": psk8, "bch": bch, "dec": dec}));
                }
            }
        }
    }
    let part = par_items(&jobs, |j, acc| {
        let psk8 = j["psk8"].as_bool().unwrap();
        let bch = j["bch"].as_bool().unwrap();
        let m = if psk8 { &c36 } else { &c35 };
        let k = (m.n - m.r) as f64;
        let g: Vec<f64> = j["grid"].as_array().unwrap().iter().map(|x| x.as_f64().unwrap()).collect();
        let npts = j["npts"].as_u64().unwrap() as usize;
        let tag = format!("{}_{}_{}_{}_{}", if psk8 { "8psk" } else { "bpsk" }, bch, j["dec"].as_str().unwrap(), g[1], g[2]);
        let apath = tmp(run, &format!("ber_{}.alist", tag));
        let opath = tmp(run, &format!("ber_{}.out", tag));
        let lpath = tmp(run, &format!("ber_{}.ldpc", tag));
        std::fs::write(&apath, m.sparse().alist()).unwrap();
        let mut a = sargs(&["ber", apath.to_str().unwrap(), "--min-ebn0", &g[0].to_string(), "--max-ebn0", &g[1].to_string(), "--step-ebn0", &g[2].to_string(), "--frame-errors", "3", "--max-iter", "10", "--decoder", j["dec"].as_str().unwrap(), "--output-file", opath.to_str().unwrap()]);
        // negative numbers must not be taken for flags
        for i in 0..a.len() {
            if a[i] == "--min-ebn0" || a[i] == "--max-ebn0" {
                a[i] = format!("{}={}", a[i], a[i + 1]);
                a[i + 1] = String::new();
            }
        }
        a.retain(|x| !x.is_empty());
        if psk8 {
            a.push("--modulation".into());
            a.push("PSK8".into());
        }
        if bch {
            a.push("--bch-max-errors".into());
            a.push("1".into());
            a.push("--output-file-ldpc".into());
            a.push(lpath.to_str().unwrap().into());
        }
        acc.evals += 1;
        acc.nontrivial += 1;
        let key = format!("cli:ber:{}", tag);
        let replay = json!({"kind": "cli", "args": a});
        let o = run_cli(&a, 120);
        if o.timed_out || o.status != Some(0) {
            acc.violate(key, format!("status {:?} (timed out {}), stderr {:?}", o.status, o.timed_out, o.stderr.lines().take(3).collect::<Vec<_>>()), replay);
            return;
        }
        let check_file = |path: &PathBuf, is_bch_line: bool| -> Result<(), String> {
            let text = std::fs::read_to_string(path).map_err(|e| format!("cannot read result file: {}", e))?;
            let rows: Vec<&str> = text.lines().skip_while(|l| !l.starts_with("--------|")).skip(1).filter(|l| !l.trim().is_empty()).collect();
            if rows.len() != npts {
                return Err(format!("{} result lines for {} requested Eb/N0 points", rows.len(), npts));
            }
            for (i, row) in rows.iter().enumerate() {
                let f: Vec<&str> = row.split('|').map(|x| x.trim()).collect();
                if f.len() != 11 {
                    return Err(format!("line {:?} has {} fields", row, f.len()));
                }
                let p = |s: &str| s.parse::<f64>().map_err(|_| format!("field {:?} is not a number", s));
                let (ebn0, frames, bit, fe, fd, ber, fer) = (p(f[0])?, p(f[1])?, p(f[2])?, p(f[3])?, p(f[4])?, p(f[5])?, p(f[6])?);
                let want_ebn0 = g[0] + i as f64 * g[2];
                if (ebn0 - want_ebn0).abs() > 0.0051 {
                    return Err(format!("line {} is for Eb/N0 {} but point {} of the grid is {}", i, ebn0, i, want_ebn0));
                }
                if !(frames >= fe && fe >= 3.0) {
                    return Err(format!("frames {} >= frame errors {} >= required 3 violated", frames, fe));
                }
                if bit > k * frames || bit < fe {
                    return Err(format!("bit errors {} outside [frame errors {}, k*frames {}]", bit, fe, k * frames));
                }
                if !is_bch_line && fd > fe {
                    return Err(format!("false decodes {} > frame errors {}", fd, fe));
                }
                let (wb, wf) = (bit / (k * frames), fe / frames);
                if (ber - wb).abs() > 0.0051 * wb + 1e-300 || (fer - wf).abs() > 0.0051 * wf + 1e-300 {
                    return Err(format!("printed BER {} / FER {} are not bit/(k*frames) = {} and frame/frames = {}", ber, fer, wb, wf));
                }
            }
            Ok(())
        };
        if let Err(e) = check_file(&opath, bch) {
            acc.violate(key.clone(), e, replay.clone());
        }
        if bch {
            // the LDPC-only file: frame errors there are LDPC frame errors (>= the outer-code ones); only
            // the count identities that do not involve the stopping rule are checked
            match std::fs::read_to_string(&lpath) {
                Ok(text) => {
                    let rows = text.lines().skip_while(|l| !l.starts_with("--------|")).skip(1).filter(|l| !l.trim().is_empty()).count();
                    if rows != npts {
                        acc.violate(key, format!("LDPC-only file has {} lines for {} points", rows, npts), replay);
                    }
                }
                Err(e) => acc.violate(key, format!("LDPC-only file missing: {}", e), replay),
            }
        }
        for p in [apath, opath, lpath] {
            let _ = std::fs::remove_file(p);
        }
    });
    let t = std::mem::take(acc);
    *acc = t.merge(part);
    // one point that runs long enough to receive intermediate progress reports (the reporter
    // interval is 500 ms): the result file must hold the FINAL statistics of the point
    {
        let apath = tmp(run, "ber_long.alist");
        let opath = tmp(run, "ber_long.out");
        std::fs::write(&apath, c35.sparse().alist()).unwrap();
        let mut need = 200_000u64;
        for _attempt in 0..4 {
            let a = sargs(&["ber", apath.to_str().unwrap(), "--min-ebn0=-4", "--max-ebn0=-3", "--step-ebn0=1", "--frame-errors", &need.to_string(), "--max-iter", "5", "--output-file", opath.to_str().unwrap()]);
            acc.evals += 1;
            let t0 = Instant::now();
            let o = run_cli(&a, 240);
            let key = "cli:ber:long-point".to_string();
            let replay = json!({"kind": "cli", "args": a});
            if o.timed_out || o.status != Some(0) {
                acc.violate(key, format!("status {:?} (timed out {})", o.status, o.timed_out), replay);
                break;
            }
            let text = std::fs::read_to_string(&opath).unwrap_or_default();
            let rows: Vec<&str> = text.lines().skip_while(|l| !l.starts_with("--------|")).skip(1).filter(|l| !l.trim().is_empty()).collect();
            let fes: Vec<f64> = rows.iter().filter_map(|r| r.split('|').nth(3).and_then(|x| x.trim().parse::<f64>().ok())).collect();
            if rows.len() != 2 || fes.len() != 2 {
                acc.violate(key, format!("{} result lines for 2 points", rows.len()), replay);
                break;
            }
            if fes.iter().any(|&fe| fe < need as f64) {
                acc.violate(key, format!("result file reports {:?} frame errors although {} were required at every point (not the final statistics)", fes, need), replay);
                break;
            }
            // meaningful only if each point ran longer than the report interval
            if t0.elapsed().as_secs_f64() > 2.4 {
                acc.nontrivial += 1;
                acc.count("ber_long_point_runs_with_intermediate_reports");
                break;
            }
            need *= 4;
        }
        let _ = std::fs::remove_file(&apath);
        let _ = std::fs::remove_file(&opath);
    }
    let apath = tmp(run, "ber_bad.alist");
    std::fs::write(&apath, c35.sparse().alist()).unwrap();
    expect_failure(&sargs(&["ber", apath.to_str().unwrap(), "--min-ebn0=1", "--max-ebn0=1", "--step-ebn0=1", "--puncturing", "1,a"]), "malformed puncturing pattern", acc);
    expect_failure(&sargs(&["ber", apath.to_str().unwrap(), "--min-ebn0=1", "--max-ebn0=1", "--step-ebn0=1", "--decoder", "Nope"]), "unknown decoder", acc);
    expect_failure(&sargs(&["ber", "/nonexistent.alist", "--min-ebn0=1", "--max-ebn0=1", "--step-ebn0=1"]), "missing alist", acc);
    expect_failure(&sargs(&["ber", apath.to_str().unwrap(), "--min-ebn0=1", "--max-ebn0=1", "--step-ebn0=1", "--modulation", "QPSK"]), "unknown modulation", acc);
    let _ = std::fs::remove_file(apath);
}

pub fn run(run: &Run) -> i32 {
    let mut acc = Acc::new();
    let thorough = run.thorough();
    if let Some(p) = &run.replay {
        let v: Value = serde_json::from_str(&std::fs::read_to_string(p).unwrap_or_else(|_| machinery("cannot read replay"))).unwrap_or_else(|_| machinery("bad replay json"));
        let args: Vec<String> = v["element"]["args"].as_array().map(|a| a.iter().map(|x| x.as_str().unwrap_or("").to_string()).collect()).unwrap_or_default();
        let o = run_cli(&args, 300);
        println!("status {:?}\nstdout (first 400 bytes): {}\nstderr: {}", o.status, &o.stdout[..o.stdout.len().min(400)], o.stderr);
        println!("(replay shows the raw invocation; re-run ./check C20 for the verdict)");
        return 0;
    }
    let mut timing = serde_json::Map::new();
    let mut lap = |name: &str, t0: Instant| {
        timing.insert(name.to_string(), json!(t0.elapsed().as_secs_f64()));
    };
    let t = Instant::now();
    dvbs2(thorough, &mut acc);
    lap("dvbs2_s", t);
    let t = Instant::now();
    ccsds(thorough, &mut acc);
    lap("ccsds_s", t);
    let t = Instant::now();
    constructions(run, thorough, &mut acc);
    lap("constructions_s", t);
    let t = Instant::now();
    systematic(run, thorough, &mut acc);
    lap("systematic_s", t);
    let t = Instant::now();
    encode(run, thorough, &mut acc);
    lap("encode_s", t);
    let t = Instant::now();
    ber(run, thorough, &mut acc);
    lap("ber_s", t);
    acc.sample(|| json!({"args": ["dvbs2", "--rate", "3/4", "--short"], "oracle": "stdout parses to Code::R3_4short.h() and equals its alist text"}));
    acc.sample(|| json!({"args": ["encode", "<alist>", "<in>", "<out>", "--puncturing", "1,1,1,1,0"], "oracle": "output file == concatenation of punctured codewords of the complete input words"}));
    finish(
        run,
        acc,
        Coverage {
            rule: "real binary built from the working tree with the verification guard off; dvbs2: all 11 rates x --short (21 valid + the invalid 9/10 short) with stdout compared to Code::h() by digest and text, --girth for the two rate-1/2 codes (thorough: all), expected girths from the harness's own reference, not from the library, invalid rates/flags; ccsds: 4 rate strings x 4 block sizes (k = 16384 only 4/5 in quick), girth, ccsds-c2; mackay-neal and peg: a grid of (rows, cols, weights, uniform, min girth, search) x 3 seeds against the library result for that seed (for --search the seed printed on stderr); systematic: every 2x4 matrix and a slice (thorough: all) of 3x4 and 3x3 matrices as files, rank-deficient ones must give the error text; encode: 3 codes x every puncturing pattern up to length 4 (6; 9 for the 3x9 code, which contains the smallest pattern whose rate is inexact in binary) x 0..2 complete words x 0/1/k-1 trailing bytes x byte-value fills, plus inputs just above 8192 and 65536 bytes (thorough: also 4096, 16384, 131072) for every code with and without a pattern, and single-parity-check codes with k = 8193, 16385, 32769, 65537 (two words and a trailing byte); ber: 4 Eb/N0 grids x BPSK/8PSK x outer-code threshold x decoders, result-file lines checked against the statistics identities, plus one run whose points last longer than the 500 ms report interval (the file must hold the final statistics); plus invalid invocations for every subcommand (non-zero status, message, no panic text). Every invocation under a 60-300 s watchdog. Each invocation is a distinct non-trivial case.".into(),
            exhaustive: true,
            extra: timing,
            graph: None,
            assumptions: vec![
                "ber runs use real threads and real randomness: only invariants of every run are asserted, so the verdict does not depend on the noise".into(),
                "library results used as expectations are themselves judged by C06, C07, C09, C16 and C02".into(),
            ],
        },
    )
}
