//! Helpers for the standard-code checks (C06, C07, C20).

use ldpc_toolbox::encoder::Encoder;
use ldpc_toolbox::gf2::GF2;
use ldpc_toolbox::sparse::SparseMatrix;
use ndarray::Array1;
use num_traits::{One, Zero};
use std::collections::HashSet;

/// Independent 4-cycle test: no two rows share two columns (row-pair hashing
/// per column; does not use the library's BFS).
pub fn four_cycle_free(h: &SparseMatrix) -> bool {
    let mut seen: HashSet<u64> = HashSet::new();
    let nr = h.num_rows() as u64;
    for c in 0..h.num_cols() {
        let rows: Vec<usize> = h.iter_col(c).cloned().collect();
        for a in 0..rows.len() {
            for b in (a + 1)..rows.len() {
                let (x, y) = if rows[a] < rows[b] { (rows[a], rows[b]) } else { (rows[b], rows[a]) };
                if !seen.insert(x as u64 * nr + y as u64) {
                    return false;
                }
            }
        }
    }
    true
}

/// Is there a cycle of length 6 (assuming no 4-cycle)? c - r1 - c1 - r3 - c2 - r2 - c.
pub fn has_six_cycle(h: &SparseMatrix) -> bool {
    let mut mark: Vec<u32> = vec![u32::MAX; h.num_rows()];
    let mut stamp: Vec<u32> = vec![u32::MAX; h.num_rows()];
    for c in 0..h.num_cols() {
        let cu = c as u32;
        for (bi, &r1) in h.iter_col(c).enumerate() {
            for &c1 in h.iter_row(r1) {
                if c1 == c {
                    continue;
                }
                for &r3 in h.iter_col(c1) {
                    if r3 == r1 {
                        continue;
                    }
                    if stamp[r3] == cu {
                        if mark[r3] != bi as u32 {
                            return true;
                        }
                    } else {
                        stamp[r3] = cu;
                        mark[r3] = bi as u32;
                    }
                }
            }
        }
    }
    false
}

struct Trunc {
    buf: String,
    cap: usize,
}

impl std::fmt::Write for Trunc {
    fn write_str(&mut self, s: &str) -> std::fmt::Result {
        for ch in s.chars() {
            if self.buf.len() >= self.cap {
                return Err(std::fmt::Error);
            }
            self.buf.push(ch);
        }
        Ok(())
    }
}

/// First `cap` characters of the Debug rendering (without rendering the rest).
pub fn debug_prefix<T: std::fmt::Debug>(x: &T, cap: usize) -> String {
    use std::fmt::Write;
    let mut t = Trunc { buf: String::new(), cap };
    let _ = write!(t, "{:?}", x);
    t.buf
}

pub fn syndrome_ok(h: &SparseMatrix, word: &[u8]) -> bool {
    (0..h.num_rows()).all(|r| h.iter_row(r).filter(|&&c| word[c] == 1).count() % 2 == 0)
}

pub fn encode_bits(enc: &Encoder, msg: &[u8]) -> Vec<u8> {
    let a = Array1::from_iter(msg.iter().map(|&b| if b == 1 { GF2::one() } else { GF2::zero() }));
    enc.encode(&a).iter().map(|x| u8::from(x.is_one())).collect()
}

/// Three fixed messages of length k: zeros, ones, a pseudo-random pattern.
pub fn three_messages(k: usize) -> Vec<Vec<u8>> {
    let mut x = 0x2545F4914F6CDD1Du64;
    let pat: Vec<u8> = (0..k)
        .map(|_| {
            x ^= x << 13;
            x ^= x >> 7;
            x ^= x << 17;
            (x & 1) as u8
        })
        .collect();
    vec![vec![0; k], vec![1; k], pat]
}

/// Runs `f` on a helper thread; None if it does not finish within `secs`.
pub fn with_timeout<T: Send + 'static>(secs: u64, f: impl FnOnce() -> T + Send + 'static) -> Option<T> {
    let (tx, rx) = std::sync::mpsc::channel();
    std::thread::Builder::new()
        .stack_size(64 << 20)
        .spawn(move || {
            let r = std::panic::catch_unwind(std::panic::AssertUnwindSafe(f));
            let _ = tx.send(r);
        })
        .ok()?;
    match rx.recv_timeout(std::time::Duration::from_secs(secs)) {
        Ok(Ok(v)) => Some(v),
        _ => None,
    }
}

pub fn col_degree_profile(h: &SparseMatrix, c0: usize, c1: usize) -> std::collections::BTreeMap<usize, usize> {
    let mut m = std::collections::BTreeMap::new();
    for c in c0..c1 {
        *m.entry(h.col_weight(c)).or_insert(0) += 1;
    }
    m
}
