//! Shared plumbing: run context, guarded subject calls, accumulators,
//! evidence / replay / known-findings handling.

use serde_json::{json, Map, Value};
use std::collections::{BTreeMap, HashSet};
use std::panic::{catch_unwind, AssertUnwindSafe};
use std::path::PathBuf;
use std::time::Instant;

#[derive(Copy, Clone, Debug, PartialEq, Eq)]
pub enum Tier {
    Quick,
    Thorough,
}

pub struct Run {
    pub id: String,
    pub tier: Tier,
    pub seed: u64,
    pub start: Instant,
    pub root: PathBuf,
    pub replay: Option<PathBuf>,
}

impl Run {
    pub fn thorough(&self) -> bool {
        self.tier == Tier::Thorough
    }
    pub fn elapsed(&self) -> f64 {
        self.start.elapsed().as_secs_f64()
    }
}

thread_local! {
    static QUIET: std::cell::Cell<u32> = const { std::cell::Cell::new(0) };
}

pub fn install_panic_hook() {
    let default = std::panic::take_hook();
    std::panic::set_hook(Box::new(move |info| {
        let quiet = QUIET.with(|q| q.get()) > 0 || verif_shim::session::quiet();
        if !quiet {
            default(info);
        }
    }));
}

pub fn payload_str(p: &(dyn std::any::Any + Send)) -> String {
    if let Some(s) = p.downcast_ref::<&str>() {
        s.to_string()
    } else if let Some(s) = p.downcast_ref::<String>() {
        s.clone()
    } else {
        "<non-string panic payload>".to_string()
    }
}

/// Runs a call into the subject; a panic is an observation (`Err(message)`).
pub fn guard<T>(f: impl FnOnce() -> T) -> Result<T, String> {
    QUIET.with(|q| q.set(q.get() + 1));
    let r = catch_unwind(AssertUnwindSafe(f));
    QUIET.with(|q| q.set(q.get() - 1));
    r.map_err(|p| payload_str(p.as_ref()))
}

#[derive(Clone, Debug)]
pub struct Violation {
    /// Stable key of the failing element (used to match known findings).
    pub key: String,
    pub text: String,
    /// Enough to re-run exactly this element.
    pub replay: Value,
}

/// Mergeable accumulator for parallel enumeration.
#[derive(Default)]
pub struct Acc {
    pub evals: u64,
    pub nontrivial: u64,
    pub counters: BTreeMap<String, u64>,
    pub viols: Vec<Violation>,
    pub viol_total: u64,
    pub samples: Vec<Value>,
    pub outcomes: HashSet<u64>,
}

pub const MAX_KEPT_VIOLATIONS: usize = 40;
pub const MAX_SAMPLES: usize = 6;

impl Acc {
    pub fn new() -> Acc {
        Acc::default()
    }
    pub fn count(&mut self, k: &str) {
        *self.counters.entry(k.to_string()).or_insert(0) += 1;
    }
    pub fn add(&mut self, k: &str, n: u64) {
        *self.counters.entry(k.to_string()).or_insert(0) += n;
    }
    pub fn outcome<H: std::hash::Hash>(&mut self, h: &H) {
        if self.outcomes.len() < 1_000_000 {
            self.outcomes.insert(hash64(h));
        }
    }
    pub fn sample(&mut self, v: impl FnOnce() -> Value) {
        if self.samples.len() < MAX_SAMPLES {
            self.samples.push(v());
        }
    }
    pub fn violate(&mut self, key: String, text: String, replay: Value) {
        self.viol_total += 1;
        if self.viols.len() < MAX_KEPT_VIOLATIONS && !self.viols.iter().any(|v| v.key == key) {
            self.viols.push(Violation { key, text, replay });
        }
    }
    pub fn merge(mut self, o: Acc) -> Acc {
        self.evals += o.evals;
        self.nontrivial += o.nontrivial;
        for (k, v) in o.counters {
            *self.counters.entry(k).or_insert(0) += v;
        }
        self.viol_total += o.viol_total;
        for v in o.viols {
            if self.viols.len() < MAX_KEPT_VIOLATIONS && !self.viols.iter().any(|x| x.key == v.key) {
                self.viols.push(v);
            }
        }
        for s in o.samples {
            if self.samples.len() < MAX_SAMPLES {
                self.samples.push(s);
            }
        }
        if self.outcomes.len() < 1_000_000 {
            self.outcomes.extend(o.outcomes);
        }
        self
    }
}

pub fn hash64<H: std::hash::Hash>(h: &H) -> u64 {
    use std::hash::Hasher;
    let mut s = std::collections::hash_map::DefaultHasher::new();
    h.hash(&mut s);
    s.finish()
}

/// Parallel fold of `f` over `0..n` with one `Acc` per rayon job.
pub fn par_fold(n: u64, f: impl Fn(u64, &mut Acc) + Sync) -> Acc {
    use rayon::prelude::*;
    (0..n)
        .into_par_iter()
        .fold(Acc::new, |mut a, i| {
            f(i, &mut a);
            a
        })
        .reduce(Acc::new, Acc::merge)
}

/// Parallel fold over a slice of work items.
pub fn par_items<T: Sync>(items: &[T], f: impl Fn(&T, &mut Acc) + Sync) -> Acc {
    use rayon::prelude::*;
    items
        .par_iter()
        .fold(Acc::new, |mut a, it| {
            f(it, &mut a);
            a
        })
        .reduce(Acc::new, Acc::merge)
}

pub struct Coverage {
    pub rule: String,
    pub exhaustive: bool,
    pub extra: Map<String, Value>,
    /// (states, transitions, traces_validated_against_impl) for bfs / sched engines
    pub graph: Option<(u64, u64, u64)>,
    pub assumptions: Vec<String>,
}

struct Known {
    findings: Vec<(String, String)>, // (property, key)
}

fn load_known(root: &std::path::Path) -> Known {
    let mut findings = Vec::new();
    if let Ok(s) = std::fs::read_to_string(root.join("known_findings.txt")) {
        for line in s.lines() {
            let line = line.trim();
            if let Some(rest) = line.strip_prefix("finding:") {
                let mut prop = None;
                let mut key = None;
                for tok in rest.split_whitespace() {
                    if let Some(p) = tok.strip_prefix("property=") {
                        prop = Some(p.to_string());
                    } else if let Some(k) = tok.strip_prefix("key=") {
                        key = Some(k.to_string());
                    }
                }
                if let (Some(p), Some(k)) = (prop, key) {
                    findings.push((p, k));
                }
            }
        }
    }
    Known { findings }
}

/// Writes evidence, prints KNOWN-FINDING / VIOLATION lines, returns exit code.
pub fn finish(run: &Run, acc: Acc, cov: Coverage) -> i32 {
    let known = load_known(&run.root);
    let mut new_viol = 0u64;
    let mut known_hits = 0u64;
    let replay_dir = run.root.join("replays").join(&run.id);
    let mut n = 0;
    for v in &acc.viols {
        if known
            .findings
            .iter()
            .any(|(p, k)| p == &run.id && k == &v.key)
        {
            println!("KNOWN-FINDING: property={} key={} {}", run.id, v.key, v.text);
            known_hits += 1;
            continue;
        }
        let _ = std::fs::create_dir_all(&replay_dir);
        let path = replay_dir.join(format!("{}.json", n));
        n += 1;
        let body = json!({"property": run.id, "key": v.key, "text": v.text, "element": v.replay});
        let _ = std::fs::write(&path, serde_json::to_string_pretty(&body).unwrap());
        println!("VIOLATION property={} replay={}", run.id, path.display());
        println!("  key={} {}", v.key, v.text);
        new_viol += 1;
    }
    if acc.viol_total > acc.viols.len() as u64 {
        println!(
            "  ({} violating elements in total, {} distinct keys kept)",
            acc.viol_total,
            acc.viols.len()
        );
    }
    let mut coverage = Map::new();
    coverage.insert("evaluations".into(), json!(acc.evals));
    coverage.insert("distinct_nontrivial".into(), json!(acc.nontrivial));
    coverage.insert("rule".into(), json!(cov.rule));
    let samples = if acc.samples.is_empty() {
        vec![json!("no sample recorded")]
    } else {
        acc.samples.clone()
    };
    coverage.insert("samples".into(), Value::Array(samples));
    coverage.insert("exhaustive".into(), json!(cov.exhaustive));
    coverage.insert("distinct_outcomes".into(), json!(acc.outcomes.len()));
    let mut counters = Map::new();
    for (k, v) in &acc.counters {
        counters.insert(k.clone(), json!(v));
    }
    coverage.insert("counters".into(), Value::Object(counters));
    if let Some((s, t, tr)) = cov.graph {
        coverage.insert("states".into(), json!(s));
        coverage.insert("transitions".into(), json!(t));
        coverage.insert("traces_validated_against_impl".into(), json!(tr));
    }
    for (k, v) in cov.extra {
        coverage.insert(k, v);
    }
    let ev = json!({
        "property_id": run.id,
        "tier": if run.tier == Tier::Quick { "quick" } else { "thorough" },
        "seed": run.seed,
        "level": "model_checking",
        "coverage": Value::Object(coverage),
        "assumptions": cov.assumptions,
        "wall_s": run.elapsed(),
        "violations": new_viol,
        "known_findings_hit": known_hits,
        "violating_elements_total": acc.viol_total,
    });
    let evdir = run.root.join("evidence");
    let _ = std::fs::create_dir_all(&evdir);
    if run.replay.is_none() {
        std::fs::write(
            evdir.join(format!("{}.json", run.id)),
            serde_json::to_string_pretty(&ev).unwrap(),
        )
        .expect("cannot write evidence");
    }
    println!(
        "{} tier={:?} evaluations={} nontrivial={} outcomes={} violations={} known={} wall={:.1}s",
        run.id,
        run.tier,
        acc.evals,
        acc.nontrivial,
        acc.outcomes.len(),
        new_viol,
        known_hits,
        run.elapsed()
    );
    if new_viol > 0 {
        1
    } else {
        0
    }
}

/// Machinery failure: never a verdict.
pub fn machinery(msg: &str) -> ! {
    eprintln!("MACHINERY-ERROR: {}", msg);
    std::process::exit(2);
}
