//! Decoder helpers shared by C01, C03, C10, C18, C19: the 36 implementation
//! names (the harness's own literal list), factory construction, and direct
//! generic construction from (schedule, arithmetic-name).

use ldpc_toolbox::decoder::arithmetic::*;
use ldpc_toolbox::decoder::factory::{DecoderFactory, DecoderImplementation};
use ldpc_toolbox::decoder::{flooding, horizontal_layered, DecoderOutput, LdpcDecoder};
use ldpc_toolbox::sparse::SparseMatrix;

/// The 24 arithmetic names, as documented.
pub const ARITHMETICS: [&str; 24] = [
    "Phif64",
    "Phif32",
    "Tanhf64",
    "Tanhf32",
    "Minstarapproxf64",
    "Minstarapproxf32",
    "Minstarapproxi8",
    "Minstarapproxi8Jones",
    "Minstarapproxi8PartialHardLimit",
    "Minstarapproxi8JonesPartialHardLimit",
    "Minstarapproxi8Deg1Clip",
    "Minstarapproxi8JonesDeg1Clip",
    "Minstarapproxi8PartialHardLimitDeg1Clip",
    "Minstarapproxi8JonesPartialHardLimitDeg1Clip",
    "Aminstarf64",
    "Aminstarf32",
    "Aminstari8",
    "Aminstari8Jones",
    "Aminstari8PartialHardLimit",
    "Aminstari8JonesPartialHardLimit",
    "Aminstari8Deg1Clip",
    "Aminstari8JonesDeg1Clip",
    "Aminstari8PartialHardLimitDeg1Clip",
    "Aminstari8JonesPartialHardLimitDeg1Clip",
];

/// The 12 arithmetics offered with the horizontal-layered schedule.
pub const HL_ARITHMETICS: [&str; 12] = [
    "Phif64",
    "Phif32",
    "Tanhf64",
    "Tanhf32",
    "Minstarapproxf64",
    "Minstarapproxf32",
    "Minstarapproxi8",
    "Minstarapproxi8PartialHardLimit",
    "Aminstarf64",
    "Aminstarf32",
    "Aminstari8",
    "Aminstari8PartialHardLimit",
];

/// The 36 implementation names: 24 flooding + 12 "HL" + arithmetic.
pub fn names() -> Vec<String> {
    let mut v: Vec<String> = ARITHMETICS.iter().map(|s| s.to_string()).collect();
    v.extend(HL_ARITHMETICS.iter().map(|s| format!("HL{}", s)));
    v
}

pub fn factory_build(name: &str, h: SparseMatrix) -> Result<Box<dyn LdpcDecoder>, String> {
    let imp: DecoderImplementation = name.parse().map_err(|e: &str| e.to_string())?;
    Ok(imp.build_decoder(h))
}

/// Calls `$body` with the type alias `$A` bound to the arithmetic named `$name`.
#[macro_export]
macro_rules! with_arith {
    ($name:expr, $A:ident, $body:block) => {{
        use ldpc_toolbox::decoder::arithmetic::*;
        match $name {
            "Phif64" => { type $A = Phif64; $body }
            "Phif32" => { type $A = Phif32; $body }
            "Tanhf64" => { type $A = Tanhf64; $body }
            "Tanhf32" => { type $A = Tanhf32; $body }
            "Minstarapproxf64" => { type $A = Minstarapproxf64; $body }
            "Minstarapproxf32" => { type $A = Minstarapproxf32; $body }
            "Minstarapproxi8" => { type $A = Minstarapproxi8; $body }
            "Minstarapproxi8Jones" => { type $A = Minstarapproxi8Jones; $body }
            "Minstarapproxi8PartialHardLimit" => { type $A = Minstarapproxi8PartialHardLimit; $body }
            "Minstarapproxi8JonesPartialHardLimit" => { type $A = Minstarapproxi8JonesPartialHardLimit; $body }
            "Minstarapproxi8Deg1Clip" => { type $A = Minstarapproxi8Deg1Clip; $body }
            "Minstarapproxi8JonesDeg1Clip" => { type $A = Minstarapproxi8JonesDeg1Clip; $body }
            "Minstarapproxi8PartialHardLimitDeg1Clip" => { type $A = Minstarapproxi8PartialHardLimitDeg1Clip; $body }
            "Minstarapproxi8JonesPartialHardLimitDeg1Clip" => { type $A = Minstarapproxi8JonesPartialHardLimitDeg1Clip; $body }
            "Aminstarf64" => { type $A = Aminstarf64; $body }
            "Aminstarf32" => { type $A = Aminstarf32; $body }
            "Aminstari8" => { type $A = Aminstari8; $body }
            "Aminstari8Jones" => { type $A = Aminstari8Jones; $body }
            "Aminstari8PartialHardLimit" => { type $A = Aminstari8PartialHardLimit; $body }
            "Aminstari8JonesPartialHardLimit" => { type $A = Aminstari8JonesPartialHardLimit; $body }
            "Aminstari8Deg1Clip" => { type $A = Aminstari8Deg1Clip; $body }
            "Aminstari8JonesDeg1Clip" => { type $A = Aminstari8JonesDeg1Clip; $body }
            "Aminstari8PartialHardLimitDeg1Clip" => { type $A = Aminstari8PartialHardLimitDeg1Clip; $body }
            "Aminstari8JonesPartialHardLimitDeg1Clip" => { type $A = Aminstari8JonesPartialHardLimitDeg1Clip; $body }
            other => panic!("harness: unknown arithmetic name {}", other),
        }
    }};
}

/// Direct construction of the generic decoder for (layered?, arithmetic name).
pub fn direct_build(layered: bool, arith: &str, h: SparseMatrix) -> Box<dyn LdpcDecoder> {
    with_arith!(arith, A, {
        if layered {
            Box::new(horizontal_layered::Decoder::new(h, A::new())) as Box<dyn LdpcDecoder>
        } else {
            Box::new(flooding::Decoder::new(h, A::new())) as Box<dyn LdpcDecoder>
        }
    })
}

/// What the name itself says: (layered, arithmetic).
pub fn parse_name(name: &str) -> (bool, &str) {
    match name.strip_prefix("HL") {
        Some(rest) => (true, rest),
        None => (false, name),
    }
}

pub type Dec = Result<DecoderOutput, DecoderOutput>;

pub fn show(r: &Dec) -> String {
    match r {
        Ok(o) => format!("Ok({:?},{})", o.codeword, o.iterations),
        Err(o) => format!("Err({:?},{})", o.codeword, o.iterations),
    }
}

#[allow(dead_code)]
pub fn is_eight_bit(arith: &str) -> bool {
    arith.contains("i8")
}

// keep the imports used even if a build drops some helper
#[allow(dead_code)]
fn _touch() {
    let _ = Phif64::new();
}
