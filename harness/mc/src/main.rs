//! mc: bounded-exhaustive / explicit-state / schedule-exploring checks of
//! ldpc-toolbox, one sub-command per property. See /verif/DESIGN.md.

mod common;
mod mats;

mod c01;
mod c02;
mod c03;
mod c04;
mod c05;
mod c06;
mod c07;
mod c08;
mod c09;
mod c10;
mod c11;
mod c12;
mod c13;
mod c13m;
mod c14;
mod c15;
mod c16;
mod c17;
mod c18;
mod c19;
mod c20;
mod codes;
mod dec;
mod arith;

use common::{Run, Tier};
use std::path::PathBuf;

fn main() {
    common::install_panic_hook();
    let args: Vec<String> = std::env::args().collect();
    if args.len() < 2 {
        eprintln!("usage: mc <Cxx> [--tier quick|thorough] [--replay FILE]");
        std::process::exit(2);
    }
    let id = args[1].clone();
    let mut tier = match std::env::var("VERIF_TIER").ok().as_deref() {
        Some("thorough") => Tier::Thorough,
        _ => Tier::Quick,
    };
    let mut replay = None;
    let mut i = 2;
    while i < args.len() {
        match args[i].as_str() {
            "--tier" => {
                i += 1;
                tier = match args.get(i).map(|s| s.as_str()) {
                    Some("thorough") => Tier::Thorough,
                    Some("quick") => Tier::Quick,
                    _ => common::machinery("bad --tier"),
                };
            }
            "--worker" => {
                i += 1;
                let a = args.get(i).unwrap_or_else(|| common::machinery("--worker needs an argument"));
                std::process::exit(match id.as_str() {
                    "C13" => c13::worker(a),
                    _ => common::machinery("no worker mode for this property"),
                });
            }
            "--replay" => {
                i += 1;
                replay = Some(PathBuf::from(
                    args.get(i).unwrap_or_else(|| common::machinery("--replay needs a file")),
                ));
            }
            other => common::machinery(&format!("unknown argument {}", other)),
        }
        i += 1;
    }
    let seed = std::env::var("VERIF_SEED")
        .ok()
        .and_then(|s| s.parse::<i64>().ok())
        .unwrap_or(0) as u64;
    let root = PathBuf::from(std::env::var("VERIF_ROOT").unwrap_or_else(|_| "/verif".into()));
    let run = Run {
        id: id.clone(),
        tier,
        seed,
        start: std::time::Instant::now(),
        root,
        replay,
    };
    // wall-clock watchdog: a check that does not finish (harness or subject looping) ends as a
    // machinery failure with a message instead of hanging; never a verdict
    {
        let limit = std::env::var("VERIF_WALL_LIMIT_S").ok().and_then(|s| s.parse::<u64>().ok()).unwrap_or(match tier {
            Tier::Quick => 900,
            Tier::Thorough => 3 * 3600,
        });
        let id = id.clone();
        std::thread::spawn(move || {
            std::thread::sleep(std::time::Duration::from_secs(limit));
            eprintln!("MACHINERY-ERROR: {}: wall-clock limit of {} s exceeded (the harness or the code under test did not terminate); no verdict", id, limit);
            std::process::exit(2);
        });
    }
    let code = std::panic::catch_unwind(std::panic::AssertUnwindSafe(|| match id.as_str() {
        "C01" => c01::run(&run),
        "C02" => c02::run(&run),
        "C03" => c03::run(&run),
        "C04" => c04::run(&run),
        "C05" => c05::run(&run),
        "C06" => c06::run(&run),
        "C07" => c07::run(&run),
        "C08" => c08::run(&run),
        "C09" => c09::run(&run),
        "C10" => c10::run(&run),
        "C11" => c11::run(&run),
        "C12" => c12::run(&run),
        "C13" => c13::run(&run),
        "C14" => c14::run(&run),
        "C15" => c15::run(&run),
        "C16" => c16::run(&run),
        "C17" => c17::run(&run),
        "C18" => c18::run(&run),
        "C19" => c19::run(&run),
        "C20" => c20::run(&run),
        _ => common::machinery(&format!("no check for {}", id)),
    }));
    match code {
        Ok(c) => std::process::exit(c),
        Err(p) => {
            // a panic of the harness itself (or of the subject in a place the harness does not
            // guard) is a machinery failure, never a verdict
            common::machinery(&format!("the checker panicked: {}", common::payload_str(p.as_ref())));
        }
    }
}
