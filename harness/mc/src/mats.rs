//! Small-scope matrix enumeration and an independent GF(2) reference
//! (bit-set rows; column j of a row is bit j).

use ldpc_toolbox::sparse::SparseMatrix;

#[derive(Clone, Debug, PartialEq, Eq, Hash)]
pub struct Small {
    pub r: usize,
    pub n: usize,
    pub rows: Vec<u64>,
}

impl Small {
    /// Matrix number `mask` of M(r,n): entry (i,j) is bit i*n+j.
    pub fn from_mask(r: usize, n: usize, mask: u64) -> Small {
        let m = if n == 64 { u64::MAX } else { (1u64 << n) - 1 };
        Small {
            r,
            n,
            rows: (0..r).map(|i| (mask >> (i * n)) & m).collect(),
        }
    }
    pub fn from_rows(n: usize, rows: &[&[usize]]) -> Small {
        Small {
            r: rows.len(),
            n,
            rows: rows
                .iter()
                .map(|r| r.iter().fold(0u64, |a, &c| a | (1 << c)))
                .collect(),
        }
    }
    pub fn from_sparse(h: &SparseMatrix) -> Small {
        assert!(h.num_cols() <= 64);
        let mut rows = vec![0u64; h.num_rows()];
        for (i, j) in h.iter_all() {
            rows[i] |= 1 << j;
        }
        Small {
            r: h.num_rows(),
            n: h.num_cols(),
            rows,
        }
    }
    pub fn get(&self, i: usize, j: usize) -> bool {
        (self.rows[i] >> j) & 1 == 1
    }
    pub fn entries(&self) -> Vec<(usize, usize)> {
        let mut v = Vec::new();
        for i in 0..self.r {
            for j in 0..self.n {
                if self.get(i, j) {
                    v.push((i, j));
                }
            }
        }
        v
    }
    pub fn min_row_weight(&self) -> u32 {
        self.rows.iter().map(|r| r.count_ones()).min().unwrap_or(0)
    }
    /// Row-major insertion.
    pub fn sparse(&self) -> SparseMatrix {
        let mut h = SparseMatrix::new(self.r, self.n);
        for (i, j) in self.entries() {
            h.insert(i, j);
        }
        h
    }
    /// Insertion in a scrambled order selected by `order` (0 = row major,
    /// 1 = reverse, 2 = column major reversed rows, 3 = interleaved).
    pub fn sparse_order(&self, order: usize) -> SparseMatrix {
        let mut e = self.entries();
        match order % 4 {
            0 => {}
            1 => e.reverse(),
            2 => e.sort_by_key(|&(i, j)| (j, std::cmp::Reverse(i))),
            _ => {
                let (a, b): (Vec<_>, Vec<_>) = e.iter().enumerate().partition(|(k, _)| k % 2 == 0);
                e = b
                    .into_iter()
                    .map(|(_, x)| *x)
                    .chain(a.into_iter().rev().map(|(_, x)| *x))
                    .collect();
            }
        }
        let mut h = SparseMatrix::new(self.r, self.n);
        for (i, j) in e {
            h.insert(i, j);
        }
        h
    }
    /// The same matrix built through a redundant editing history: columns filled bottom-up,
    /// then every entry inserted again through insert_row, then every entry toggled twice.
    /// (A matrix is a set of positions; how it was built must not matter to anyone.)
    pub fn sparse_redundant(&self) -> SparseMatrix {
        let mut h = SparseMatrix::new(self.r, self.n);
        for j in 0..self.n {
            let rows: Vec<usize> = (0..self.r).rev().filter(|&i| self.get(i, j)).collect();
            h.insert_col(j, rows.iter());
        }
        for i in 0..self.r {
            let cols: Vec<usize> = (0..self.n).filter(|&j| self.get(i, j)).collect();
            h.insert_row(i, cols.iter());
        }
        for (i, j) in self.entries() {
            h.toggle(i, j);
            h.toggle(i, j);
        }
        h
    }
    /// The matrix built in one of five ways (row-major, reversed, column-major with descending rows,
    /// interleaved, redundant editing history), chosen by a hash of its contents: a matrix is a set
    /// of positions, so nothing may depend on the way it was built. Deterministic per matrix.
    pub fn sparse_var(&self) -> SparseMatrix {
        let mut x = 0x9E37_79B9_7F4A_7C15u64 ^ (self.n as u64);
        for &r in &self.rows {
            x = (x ^ r).wrapping_mul(0x1000_0000_01B3);
            x ^= x >> 29;
        }
        match x % 5 {
            4 => self.sparse_redundant(),
            k => self.sparse_order(k as usize),
        }
    }
    pub fn syndrome_ok(&self, word: u64) -> bool {
        self.rows.iter().all(|r| (r & word).count_ones() % 2 == 0)
    }
    pub fn rank(&self) -> usize {
        rank(&self.rows)
    }
    /// Is the square matrix formed by the last r columns invertible?
    pub fn tail_invertible(&self) -> bool {
        let k = self.n - self.r;
        let sub: Vec<u64> = self.rows.iter().map(|r| r >> k).collect();
        rank(&sub) == self.r
    }
    /// All words x (bit j = coordinate j) with H x = 0.
    pub fn codewords(&self) -> Vec<u64> {
        (0..(1u64 << self.n)).filter(|&x| self.syndrome_ok(x)).collect()
    }
    pub fn column(&self, j: usize) -> u64 {
        (0..self.r).fold(0u64, |a, i| a | (((self.rows[i] >> j) & 1) << i))
    }
    pub fn alist_like(&self) -> String {
        self.rows
            .iter()
            .map(|r| (0..self.n).map(|j| if (r >> j) & 1 == 1 { '1' } else { '0' }).collect::<String>())
            .collect::<Vec<_>>()
            .join(";")
    }
}

pub fn rank(rows: &[u64]) -> usize {
    let mut rows = rows.to_vec();
    let mut rank = 0;
    for bit in 0..64 {
        let Some(p) = (rank..rows.len()).find(|&i| (rows[i] >> bit) & 1 == 1) else {
            continue;
        };
        rows.swap(rank, p);
        let pr = rows[rank];
        for (i, row) in rows.iter_mut().enumerate() {
            if i != rank && (*row >> bit) & 1 == 1 {
                *row ^= pr;
            }
        }
        rank += 1;
        if rank == rows.len() {
            break;
        }
    }
    rank
}

/// Large bit-set matrix for the standard codes.
pub struct Big {
    pub r: usize,
    pub n: usize,
    pub w: usize,
    pub rows: Vec<Vec<u64>>,
}

impl Big {
    pub fn from_sparse(h: &SparseMatrix) -> Big {
        let w = h.num_cols().div_ceil(64);
        let mut rows = vec![vec![0u64; w]; h.num_rows()];
        for (i, j) in h.iter_all() {
            rows[i][j / 64] |= 1 << (j % 64);
        }
        Big {
            r: h.num_rows(),
            n: h.num_cols(),
            w,
            rows,
        }
    }
    /// Sub-matrix of the columns [c0, n).
    pub fn from_sparse_cols(h: &SparseMatrix, c0: usize) -> Big {
        let n = h.num_cols() - c0;
        let w = n.div_ceil(64);
        let mut rows = vec![vec![0u64; w]; h.num_rows()];
        for (i, j) in h.iter_all() {
            if j >= c0 {
                let j = j - c0;
                rows[i][j / 64] |= 1 << (j % 64);
            }
        }
        Big {
            r: h.num_rows(),
            n,
            w,
            rows,
        }
    }
    /// Rank by Gaussian elimination (destroys the matrix).
    pub fn rank(mut self) -> usize {
        let mut rank = 0;
        for col in 0..self.n {
            let (wi, bi) = (col / 64, col % 64);
            let Some(p) = (rank..self.r).find(|&i| (self.rows[i][wi] >> bi) & 1 == 1) else {
                continue;
            };
            self.rows.swap(rank, p);
            let (head, tail) = self.rows.split_at_mut(rank + 1);
            let pr = &head[rank];
            for row in tail.iter_mut() {
                if (row[wi] >> bi) & 1 == 1 {
                    for k in wi..self.w {
                        row[k] ^= pr[k];
                    }
                }
            }
            rank += 1;
            if rank == self.r {
                break;
            }
        }
        rank
    }
}

/// SHA-256 (FIPS 180-4), for pinning the standard matrices.
pub fn sha256(data: &[u8]) -> String {
    const K: [u32; 64] = [
        0x428a2f98, 0x71374491, 0xb5c0fbcf, 0xe9b5dba5, 0x3956c25b, 0x59f111f1, 0x923f82a4, 0xab1c5ed5,
        0xd807aa98, 0x12835b01, 0x243185be, 0x550c7dc3, 0x72be5d74, 0x80deb1fe, 0x9bdc06a7, 0xc19bf174,
        0xe49b69c1, 0xefbe4786, 0x0fc19dc6, 0x240ca1cc, 0x2de92c6f, 0x4a7484aa, 0x5cb0a9dc, 0x76f988da,
        0x983e5152, 0xa831c66d, 0xb00327c8, 0xbf597fc7, 0xc6e00bf3, 0xd5a79147, 0x06ca6351, 0x14292967,
        0x27b70a85, 0x2e1b2138, 0x4d2c6dfc, 0x53380d13, 0x650a7354, 0x766a0abb, 0x81c2c92e, 0x92722c85,
        0xa2bfe8a1, 0xa81a664b, 0xc24b8b70, 0xc76c51a3, 0xd192e819, 0xd6990624, 0xf40e3585, 0x106aa070,
        0x19a4c116, 0x1e376c08, 0x2748774c, 0x34b0bcb5, 0x391c0cb3, 0x4ed8aa4a, 0x5b9cca4f, 0x682e6ff3,
        0x748f82ee, 0x78a5636f, 0x84c87814, 0x8cc70208, 0x90befffa, 0xa4506ceb, 0xbef9a3f7, 0xc67178f2,
    ];
    let mut h: [u32; 8] = [
        0x6a09e667, 0xbb67ae85, 0x3c6ef372, 0xa54ff53a, 0x510e527f, 0x9b05688c, 0x1f83d9ab, 0x5be0cd19,
    ];
    let mut msg = data.to_vec();
    let bitlen = (data.len() as u64).wrapping_mul(8);
    msg.push(0x80);
    while msg.len() % 64 != 56 {
        msg.push(0);
    }
    msg.extend_from_slice(&bitlen.to_be_bytes());
    for chunk in msg.chunks(64) {
        let mut w = [0u32; 64];
        for i in 0..16 {
            w[i] = u32::from_be_bytes([chunk[4 * i], chunk[4 * i + 1], chunk[4 * i + 2], chunk[4 * i + 3]]);
        }
        for i in 16..64 {
            let s0 = w[i - 15].rotate_right(7) ^ w[i - 15].rotate_right(18) ^ (w[i - 15] >> 3);
            let s1 = w[i - 2].rotate_right(17) ^ w[i - 2].rotate_right(19) ^ (w[i - 2] >> 10);
            w[i] = w[i - 16]
                .wrapping_add(s0)
                .wrapping_add(w[i - 7])
                .wrapping_add(s1);
        }
        let mut a = h;
        for i in 0..64 {
            let s1 = a[4].rotate_right(6) ^ a[4].rotate_right(11) ^ a[4].rotate_right(25);
            let ch = (a[4] & a[5]) ^ (!a[4] & a[6]);
            let t1 = a[7]
                .wrapping_add(s1)
                .wrapping_add(ch)
                .wrapping_add(K[i])
                .wrapping_add(w[i]);
            let s0 = a[0].rotate_right(2) ^ a[0].rotate_right(13) ^ a[0].rotate_right(22);
            let maj = (a[0] & a[1]) ^ (a[0] & a[2]) ^ (a[1] & a[2]);
            let t2 = s0.wrapping_add(maj);
            a[7] = a[6];
            a[6] = a[5];
            a[5] = a[4];
            a[4] = a[3].wrapping_add(t1);
            a[3] = a[2];
            a[2] = a[1];
            a[1] = a[0];
            a[0] = t1.wrapping_add(t2);
        }
        for i in 0..8 {
            h[i] = h[i].wrapping_add(a[i]);
        }
    }
    h.iter().map(|x| format!("{:08x}", x)).collect()
}

/// Digest of a sparse matrix: sha256 over "rows cols\n" + sorted "r c\n" list.
pub fn matrix_digest(h: &SparseMatrix) -> String {
    let mut e: Vec<(usize, usize)> = h.iter_all().collect();
    e.sort_unstable();
    let mut s = format!("{} {}\n", h.num_rows(), h.num_cols());
    for (r, c) in e {
        s.push_str(&format!("{} {}\n", r, c));
    }
    sha256(s.as_bytes())
}

/// Reference Tanner-graph distances and girths (independent of sparse/bfs.rs).
/// Nodes: rows 0..r, columns r..r+n.
pub struct RefGraph {
    pub r: usize,
    pub n: usize,
    pub adj: Vec<Vec<usize>>,
}

impl RefGraph {
    pub fn from_small(m: &Small) -> RefGraph {
        let mut adj = vec![Vec::new(); m.r + m.n];
        for (i, j) in m.entries() {
            adj[i].push(m.r + j);
            adj[m.r + j].push(i);
        }
        RefGraph { r: m.r, n: m.n, adj }
    }
    pub fn from_sparse(h: &SparseMatrix) -> RefGraph {
        let r = h.num_rows();
        let mut adj = vec![Vec::new(); r + h.num_cols()];
        for (i, j) in h.iter_all() {
            adj[i].push(r + j);
            adj[r + j].push(i);
        }
        RefGraph {
            r,
            n: h.num_cols(),
            adj,
        }
    }
    /// Shortest-path lengths from `src`, optionally ignoring one edge.
    pub fn dist(&self, src: usize, skip: Option<(usize, usize)>) -> Vec<Option<usize>> {
        let mut d = vec![None; self.adj.len()];
        d[src] = Some(0);
        let mut frontier = vec![src];
        let mut depth = 0;
        while !frontier.is_empty() {
            depth += 1;
            let mut next = Vec::new();
            for &u in &frontier {
                for &v in &self.adj[u] {
                    if let Some((a, b)) = skip {
                        if (u == a && v == b) || (u == b && v == a) {
                            continue;
                        }
                    }
                    if d[v].is_none() {
                        d[v] = Some(depth);
                        next.push(v);
                    }
                }
            }
            frontier = next;
        }
        d
    }
    /// Length of the shortest cycle through node `v` (None if on no cycle):
    /// min over incident edges (v,u) of 1 + dist_{G - (v,u)}(u, v).
    pub fn local_girth(&self, v: usize) -> Option<usize> {
        let mut best = None;
        for &u in &self.adj[v] {
            let d = self.dist(u, Some((v, u)));
            if let Some(x) = d[v] {
                let c = x + 1;
                if best.map_or(true, |b| c < b) {
                    best = Some(c);
                }
            }
        }
        best
    }
    pub fn girth(&self) -> Option<usize> {
        (0..self.adj.len()).filter_map(|v| self.local_girth(v)).min()
    }
}

/// Named matrices used by several checks.
pub fn named() -> Vec<(&'static str, Small)> {
    vec![
        (
            "johnson4x6",
            Small::from_rows(6, &[&[0, 1, 3], &[1, 2, 4], &[0, 4, 5], &[2, 3, 5]]),
        ),
        (
            "hamming3x7",
            Small::from_rows(7, &[&[0, 1, 2, 4], &[1, 2, 3, 5], &[0, 2, 3, 6]]),
        ),
        (
            "stair3x6",
            Small::from_rows(6, &[&[0, 1, 3], &[1, 2, 3, 4], &[0, 2, 4, 5]]),
        ),
        (
            "punct4x8",
            Small::from_rows(8, &[&[0, 1, 4], &[1, 2, 5], &[2, 3, 6, 4], &[0, 3, 7, 5]]),
        ),
        ("long2x6", Small::from_rows(6, &[&[0, 1, 2, 3, 4, 5], &[0, 2, 4]])),
        (
            "proto3x5",
            Small::from_rows(5, &[&[2, 4], &[0, 1, 3, 4], &[0, 1, 3, 4, 2]]),
        ),
    ]
}
