//! mpsc channels with std semantics (unbounded `channel`, bounded
//! `sync_channel` with capacity >= 1, sender/receiver disconnection), usable
//! in pass-through mode (blocking on a condition variable) and in controlled
//! mode (every operation is a scheduling point).

use crate::sched::{ChanMeta, Event, Exec, Op};
use crate::session;
use std::collections::VecDeque;
use std::sync::atomic::{AtomicBool, AtomicUsize, Ordering};
use std::sync::mpsc::{RecvError, SendError, TryRecvError};
use std::sync::{Arc, Condvar, Mutex};

static PASS_THROUGH_IDS: AtomicUsize = AtomicUsize::new(1 << 32);

struct Chan<T> {
    meta: Arc<ChanMeta>,
    q: Mutex<VecDeque<T>>,
    cv: Condvar,
}

fn ctl() -> Option<(Arc<Exec>, usize)> {
    session::current().and_then(|c| c.exec.map(|e| (e, c.tid)))
}

impl<T> Chan<T> {
    fn new(cap: Option<usize>) -> Arc<Chan<T>> {
        if cap == Some(0) {
            panic!("verif_shim: rendezvous channels (capacity 0) are not supported");
        }
        let id = match ctl() {
            Some((exec, tid)) => {
                let id = exec.new_chan_id();
                exec.log(Event::ChanCreate { chan: id, cap, tid });
                id
            }
            None => PASS_THROUGH_IDS.fetch_add(1, Ordering::SeqCst),
        };
        Arc::new(Chan {
            meta: Arc::new(ChanMeta {
                id,
                cap,
                len: AtomicUsize::new(0),
                senders: AtomicUsize::new(1),
                rx_alive: AtomicBool::new(true),
            }),
            q: Mutex::new(VecDeque::new()),
            cv: Condvar::new(),
        })
    }

    fn lockq(&self) -> std::sync::MutexGuard<'_, VecDeque<T>> {
        self.q.lock().unwrap_or_else(|e| e.into_inner())
    }

    fn send(&self, t: T) -> Result<(), SendError<T>> {
        if let Some((exec, tid)) = ctl() {
            exec.point(tid, Op::Send(self.meta.clone()));
            let r = {
                let mut q = self.lockq();
                if !self.meta.rx_alive.load(Ordering::SeqCst) {
                    Err(SendError(t))
                } else {
                    q.push_back(t);
                    self.meta.len.store(q.len(), Ordering::SeqCst);
                    Ok(())
                }
            };
            exec.log(Event::Send {
                chan: self.meta.id,
                tid,
                ok: r.is_ok(),
            });
            self.cv.notify_all();
            return r;
        }
        let mut q = self.lockq();
        loop {
            if !self.meta.rx_alive.load(Ordering::SeqCst) {
                return Err(SendError(t));
            }
            match self.meta.cap {
                Some(c) if q.len() >= c => {
                    q = self.cv.wait(q).unwrap_or_else(|e| e.into_inner());
                }
                _ => break,
            }
        }
        q.push_back(t);
        self.meta.len.store(q.len(), Ordering::SeqCst);
        drop(q);
        self.cv.notify_all();
        Ok(())
    }

    fn recv(&self) -> Result<T, RecvError> {
        if let Some((exec, tid)) = ctl() {
            exec.point(tid, Op::Recv(self.meta.clone()));
            let r = {
                let mut q = self.lockq();
                let v = q.pop_front();
                self.meta.len.store(q.len(), Ordering::SeqCst);
                v
            };
            exec.log(Event::Recv {
                chan: self.meta.id,
                tid,
                ok: r.is_some(),
            });
            self.cv.notify_all();
            return r.ok_or(RecvError);
        }
        let mut q = self.lockq();
        loop {
            if let Some(v) = q.pop_front() {
                self.meta.len.store(q.len(), Ordering::SeqCst);
                drop(q);
                self.cv.notify_all();
                return Ok(v);
            }
            if self.meta.senders.load(Ordering::SeqCst) == 0 {
                return Err(RecvError);
            }
            q = self.cv.wait(q).unwrap_or_else(|e| e.into_inner());
        }
    }

    fn try_recv(&self) -> Result<T, TryRecvError> {
        let c = ctl();
        if let Some((exec, tid)) = c.as_ref() {
            exec.point(*tid, Op::TryRecv(self.meta.clone()));
        }
        let r = {
            let mut q = self.lockq();
            match q.pop_front() {
                Some(v) => {
                    self.meta.len.store(q.len(), Ordering::SeqCst);
                    Ok(v)
                }
                None => {
                    if self.meta.senders.load(Ordering::SeqCst) == 0 {
                        Err(TryRecvError::Disconnected)
                    } else {
                        Err(TryRecvError::Empty)
                    }
                }
            }
        };
        if let Some((exec, tid)) = c {
            exec.log(Event::TryRecv {
                chan: self.meta.id,
                tid,
                got: r.is_ok(),
                disconnected: matches!(r, Err(TryRecvError::Disconnected)),
            });
        }
        self.cv.notify_all();
        r
    }

    fn drop_point(&self) {
        if let Some(ctx) = session::current() {
            if ctx.session.drop_points {
                if let Some(exec) = ctx.exec.as_ref() {
                    if !exec.aborted() {
                        exec.point(ctx.tid, Op::DropEndpoint);
                    }
                }
            }
        }
    }

    fn drop_sender(&self) {
        self.drop_point();
        // taking the queue lock orders the decrement against a waiting receiver
        let g = self.lockq();
        let remaining = self.meta.senders.fetch_sub(1, Ordering::SeqCst) - 1;
        drop(g);
        if let Some((exec, tid)) = ctl() {
            exec.log(Event::SenderDrop {
                chan: self.meta.id,
                tid,
                remaining,
            });
        }
        self.cv.notify_all();
    }

    fn drop_receiver(&self) {
        self.drop_point();
        let drained: Vec<T> = {
            let mut q = self.lockq();
            self.meta.rx_alive.store(false, Ordering::SeqCst);
            self.meta.len.store(0, Ordering::SeqCst);
            q.drain(..).collect()
        };
        drop(drained);
        if let Some((exec, tid)) = ctl() {
            exec.log(Event::ReceiverDrop {
                chan: self.meta.id,
                tid,
            });
        }
        self.cv.notify_all();
    }
}

pub struct Sender<T> {
    ch: Arc<Chan<T>>,
}

pub struct SyncSender<T> {
    ch: Arc<Chan<T>>,
}

pub struct Receiver<T> {
    ch: Arc<Chan<T>>,
}

pub fn channel<T>() -> (Sender<T>, Receiver<T>) {
    let ch = Chan::new(None);
    (Sender { ch: ch.clone() }, Receiver { ch })
}

pub fn sync_channel<T>(bound: usize) -> (SyncSender<T>, Receiver<T>) {
    let ch = Chan::new(Some(bound));
    (SyncSender { ch: ch.clone() }, Receiver { ch })
}

impl<T> Sender<T> {
    pub fn send(&self, t: T) -> Result<(), SendError<T>> {
        self.ch.send(t)
    }
    /// Identifier of the channel in the operation log.
    pub fn chan_id(&self) -> usize {
        self.ch.meta.id
    }
}

impl<T> SyncSender<T> {
    pub fn send(&self, t: T) -> Result<(), SendError<T>> {
        self.ch.send(t)
    }
    pub fn chan_id(&self) -> usize {
        self.ch.meta.id
    }
}

impl<T> Receiver<T> {
    pub fn recv(&self) -> Result<T, RecvError> {
        self.ch.recv()
    }
    pub fn try_recv(&self) -> Result<T, TryRecvError> {
        self.ch.try_recv()
    }
    pub fn chan_id(&self) -> usize {
        self.ch.meta.id
    }
    /// Everything queued right now (pass-through use by the harness).
    pub fn drain_now(&self) -> Vec<T> {
        let mut q = self.ch.lockq();
        let v: Vec<T> = q.drain(..).collect();
        self.ch.meta.len.store(0, Ordering::SeqCst);
        v
    }
}

impl<T> Clone for Sender<T> {
    fn clone(&self) -> Self {
        self.ch.meta.senders.fetch_add(1, Ordering::SeqCst);
        Sender { ch: self.ch.clone() }
    }
}

impl<T> Clone for SyncSender<T> {
    fn clone(&self) -> Self {
        self.ch.meta.senders.fetch_add(1, Ordering::SeqCst);
        SyncSender { ch: self.ch.clone() }
    }
}

impl<T> Drop for Sender<T> {
    fn drop(&mut self) {
        self.ch.drop_sender();
    }
}

impl<T> Drop for SyncSender<T> {
    fn drop(&mut self) {
        self.ch.drop_sender();
    }
}

impl<T> Drop for Receiver<T> {
    fn drop(&mut self) {
        self.ch.drop_receiver();
    }
}

impl<T> std::fmt::Debug for Sender<T> {
    fn fmt(&self, f: &mut std::fmt::Formatter<'_>) -> std::fmt::Result {
        write!(f, "Sender(ch{})", self.ch.meta.id)
    }
}

impl<T> std::fmt::Debug for SyncSender<T> {
    fn fmt(&self, f: &mut std::fmt::Formatter<'_>) -> std::fmt::Result {
        write!(f, "SyncSender(ch{})", self.ch.meta.id)
    }
}

impl<T> std::fmt::Debug for Receiver<T> {
    fn fmt(&self, f: &mut std::fmt::Formatter<'_>) -> std::fmt::Result {
        write!(f, "Receiver(ch{})", self.ch.meta.id)
    }
}
