//! `Instant` replacement: real monotonic time in pass-through mode, a virtual
//! clock (advancing 1 ms per reading) inside a controlled execution.

use crate::session;
use std::ops::{Add, Sub};
use std::sync::OnceLock;
use std::time::Duration;

static BASE: OnceLock<std::time::Instant> = OnceLock::new();

#[derive(Copy, Clone, Debug, PartialEq, Eq, PartialOrd, Ord, Hash)]
pub struct Instant(Duration);

impl Instant {
    pub fn now() -> Instant {
        if let Some(ctx) = session::current() {
            if let Some(exec) = ctx.exec.as_ref() {
                return Instant(Duration::from_millis(exec.now_ms()));
            }
        }
        let base = *BASE.get_or_init(std::time::Instant::now);
        // offset so that subtracting small durations never underflows
        Instant(Duration::from_secs(1_000_000) + base.elapsed())
    }

    pub fn elapsed(&self) -> Duration {
        Instant::now() - *self
    }

    pub fn duration_since(&self, earlier: Instant) -> Duration {
        self.0.saturating_sub(earlier.0)
    }
}

impl Add<Duration> for Instant {
    type Output = Instant;
    fn add(self, rhs: Duration) -> Instant {
        Instant(self.0.checked_add(rhs).expect("overflow when adding duration to instant"))
    }
}

impl Sub<Duration> for Instant {
    type Output = Instant;
    fn sub(self, rhs: Duration) -> Instant {
        Instant(self.0.checked_sub(rhs).expect("overflow when subtracting duration from instant"))
    }
}

impl Sub<Instant> for Instant {
    type Output = Duration;
    fn sub(self, rhs: Instant) -> Duration {
        self.0.saturating_sub(rhs.0)
    }
}
