//! verif_shim: the seams that `src/simulation/ber.rs` (and `src/cli/ber.rs`) of
//! ldpc-toolbox are compiled against when built with `--cfg ldpc_toolbox_verif`.
//!
//! Every primitive has two modes:
//!  * pass-through (no controlled execution active on the calling thread):
//!    ordinary blocking semantics, equivalent to std;
//!  * controlled (the thread belongs to a `sched::run_controlled` execution):
//!    every channel operation, spawn, join and thread exit is a scheduling
//!    point of a baton-passing scheduler that runs exactly one thread at a
//!    time and replays / extends a recorded list of choices.

pub mod chan;
pub mod clock;
pub mod sched;
pub mod session;
pub mod thread_shim;

/// Replacement for the `std` crate inside the hooked modules.
pub mod std_shim {
    pub use ::std::*;

    pub mod sync {
        pub use ::std::sync::*;
        pub mod mpsc {
            pub use crate::chan::{channel, sync_channel, Receiver, Sender, SyncSender};
            pub use ::std::sync::mpsc::{
                RecvError, RecvTimeoutError, SendError, TryRecvError, TrySendError,
            };
        }
    }

    pub mod thread {
        pub use crate::thread_shim::{spawn, JoinHandle};
        pub use ::std::thread::*;
    }

    pub mod time {
        pub use crate::clock::Instant;
        pub use ::std::time::*;
    }
}

/// Replacement for the `rand` crate inside the hooked modules.
pub mod rand_shim {
    pub use ::rand::*;

    /// The RNG handed to a BER worker: the thread RNG, unless the session
    /// installed a factory (scripted RNG) or a controlled execution is active
    /// (deterministic stream).
    pub enum ShimRng {
        Thread(::rand::rngs::ThreadRng),
        Boxed(Box<dyn ::rand::RngCore + Send>),
    }

    impl ::rand::RngCore for ShimRng {
        fn next_u32(&mut self) -> u32 {
            match self {
                ShimRng::Thread(r) => r.next_u32(),
                ShimRng::Boxed(r) => r.next_u32(),
            }
        }
        fn next_u64(&mut self) -> u64 {
            match self {
                ShimRng::Thread(r) => r.next_u64(),
                ShimRng::Boxed(r) => r.next_u64(),
            }
        }
        fn fill_bytes(&mut self, dst: &mut [u8]) {
            match self {
                ShimRng::Thread(r) => r.fill_bytes(dst),
                ShimRng::Boxed(r) => r.fill_bytes(dst),
            }
        }
    }

    /// Deterministic default stream for controlled executions (SplitMix64).
    pub struct SplitMix(pub u64);

    impl ::rand::RngCore for SplitMix {
        fn next_u32(&mut self) -> u32 {
            (self.next_u64() >> 32) as u32
        }
        fn next_u64(&mut self) -> u64 {
            self.0 = self.0.wrapping_add(0x9E37_79B9_7F4A_7C15);
            let mut z = self.0;
            z = (z ^ (z >> 30)).wrapping_mul(0xBF58_476D_1CE4_E5B9);
            z = (z ^ (z >> 27)).wrapping_mul(0x94D0_49BB_1331_11EB);
            z ^ (z >> 31)
        }
        fn fill_bytes(&mut self, dst: &mut [u8]) {
            for chunk in dst.chunks_mut(8) {
                let v = self.next_u64().to_le_bytes();
                chunk.copy_from_slice(&v[..chunk.len()]);
            }
        }
    }

    pub fn rng() -> ShimRng {
        if let Some(ctx) = crate::session::current() {
            let idx = ctx
                .session
                .rng_calls
                .fetch_add(1, ::std::sync::atomic::Ordering::SeqCst);
            if let Some(f) = ctx.session.rng_factory.as_ref() {
                return ShimRng::Boxed(f(idx));
            }
            if ctx.exec.is_some() {
                return ShimRng::Boxed(Box::new(SplitMix(0x1234_5678 + ctx.tid as u64)));
            }
        }
        ShimRng::Thread(::rand::rng())
    }
}

/// Replacement for the `num_cpus` crate inside the hooked modules.
pub mod num_cpus_shim {
    pub fn get() -> usize {
        if let Some(ctx) = crate::session::current() {
            if let Some(n) = ctx.session.num_cpus {
                return n;
            }
        }
        ::num_cpus::get()
    }
}
