//! Controlled scheduler: real OS threads passing a baton.
//!
//! Exactly one thread of an execution runs at any time. A thread gives up the
//! baton only at a *scheduling point* (`Exec::point`), where it publishes the
//! operation it is about to perform. The scheduler computes which threads'
//! pending operations are enabled, takes the next choice from the recorded
//! prefix (or choice 0 = canonical default beyond it), records the decision
//! and hands the baton over. The chosen thread then performs its operation and
//! runs on to its next scheduling point.
//!
//! Canonical order of the enabled list: the thread that reached the point
//! first if its own operation is enabled, then the others by ascending id.
//! Hence choice 0 = "keep running" whenever that is possible, and picking any
//! other entry while the running thread is enabled is a preemption.

use crate::session::{self, Ctx, Session};
use std::any::Any;
use std::panic::{catch_unwind, resume_unwind, AssertUnwindSafe};
use std::sync::atomic::{AtomicBool, AtomicUsize, Ordering};
use std::sync::{Arc, Condvar, Mutex, MutexGuard};

/// Non-generic part of a channel, enough to decide enabledness.
pub struct ChanMeta {
    pub id: usize,
    pub cap: Option<usize>,
    pub len: AtomicUsize,
    pub senders: AtomicUsize,
    pub rx_alive: AtomicBool,
}

impl ChanMeta {
    pub fn can_recv(&self) -> bool {
        self.len.load(Ordering::SeqCst) > 0 || self.senders.load(Ordering::SeqCst) == 0
    }
    pub fn can_send(&self) -> bool {
        match self.cap {
            None => true,
            Some(c) => self.len.load(Ordering::SeqCst) < c || !self.rx_alive.load(Ordering::SeqCst),
        }
    }
}

#[derive(Clone)]
pub enum Op {
    /// Not at a scheduling point (holds the baton or has not been created).
    Running,
    Start,
    Send(Arc<ChanMeta>),
    Recv(Arc<ChanMeta>),
    TryRecv(Arc<ChanMeta>),
    Spawn,
    Join(usize),
    /// Enabled only when no other thread has an enabled operation.
    LowYield,
    /// About to drop a channel endpoint (only with Session::drop_points).
    DropEndpoint,
}

impl Op {
    fn describe(&self) -> String {
        match self {
            Op::Running => "Running".into(),
            Op::Start => "Start".into(),
            Op::Send(m) => format!("Send(ch{})", m.id),
            Op::Recv(m) => format!("Recv(ch{})", m.id),
            Op::TryRecv(m) => format!("TryRecv(ch{})", m.id),
            Op::Spawn => "Spawn".into(),
            Op::Join(t) => format!("Join(t{})", t),
            Op::LowYield => "LowYield".into(),
            Op::DropEndpoint => "DropEndpoint".into(),
        }
    }
}

/// One entry of the operation log of an execution (what the oracle reads).
#[derive(Clone, Debug, PartialEq, Eq, Hash)]
pub enum Event {
    ChanCreate { chan: usize, cap: Option<usize>, tid: usize },
    Send { chan: usize, tid: usize, ok: bool },
    Recv { chan: usize, tid: usize, ok: bool },
    TryRecv { chan: usize, tid: usize, got: bool, disconnected: bool },
    SenderDrop { chan: usize, tid: usize, remaining: usize },
    ReceiverDrop { chan: usize, tid: usize },
    Spawn { parent: usize, child: usize },
    Join { tid: usize, target: usize, panicked: bool },
    Exit { tid: usize, panicked: bool },
    Note { tid: usize, text: String },
}

/// One scheduling decision.
#[derive(Clone, Debug, PartialEq, Eq)]
pub struct Decision {
    /// Thread that reached the scheduling point.
    pub at: usize,
    /// Whether that thread's own operation was enabled (switching away from it
    /// then costs a preemption).
    pub at_enabled: bool,
    /// Enabled threads in canonical order.
    pub enabled: Vec<usize>,
    /// Index into `enabled` that was taken.
    pub chosen: usize,
}

#[derive(Clone, Debug, PartialEq, Eq)]
pub enum Abort {
    /// No thread enabled while some thread is unfinished.
    Deadlock(Vec<(usize, String)>),
    /// Step horizon exceeded.
    Horizon,
    /// The prefix asked for a choice that does not exist.
    Divergence(String),
    /// The body returned while other threads were still alive.
    MainDone,
}

struct AbortToken;

struct ThreadSt {
    pending: Op,
    finished: bool,
}

pub struct ExecState {
    threads: Vec<ThreadSt>,
    running: usize,
    prefix: Vec<usize>,
    decisions: Vec<Decision>,
    log: Vec<Event>,
    abort: Option<Abort>,
    steps: usize,
    horizon: usize,
    clock_ms: u64,
    next_chan: usize,
    os_handles: Vec<std::thread::JoinHandle<()>>,
}

pub struct Exec {
    m: Mutex<ExecState>,
    cv: Condvar,
}

pub enum Outcome<R> {
    /// The body ran to completion (returned or panicked on its own).
    Done(std::thread::Result<R>),
    Aborted(Abort),
}

pub struct ExecResult<R> {
    pub outcome: Outcome<R>,
    pub decisions: Vec<Decision>,
    pub log: Vec<Event>,
    /// Threads (other than the body) not finished when the body returned.
    pub unfinished_at_return: Vec<usize>,
    pub threads: usize,
}

fn lock(m: &Mutex<ExecState>) -> MutexGuard<'_, ExecState> {
    m.lock().unwrap_or_else(|e| e.into_inner())
}

impl Exec {
    fn op_enabled(st: &ExecState, op: &Op) -> bool {
        match op {
            Op::Running => false,
            Op::Start | Op::Spawn | Op::TryRecv(_) | Op::DropEndpoint => true,
            Op::Send(m) => m.can_send(),
            Op::Recv(m) => m.can_recv(),
            Op::Join(t) => st.threads[*t].finished,
            Op::LowYield => false,
        }
    }

    /// Enabled threads in canonical order, and whether `at`'s own op is enabled.
    fn enabled(st: &ExecState, at: usize) -> (Vec<usize>, bool) {
        let mut normal = Vec::new();
        let mut low = Vec::new();
        let mut at_enabled = false;
        for (t, th) in st.threads.iter().enumerate() {
            if th.finished {
                continue;
            }
            if Self::op_enabled(st, &th.pending) {
                if t == at {
                    at_enabled = true;
                } else {
                    normal.push(t);
                }
            } else if matches!(th.pending, Op::LowYield) {
                low.push(t);
            }
        }
        if at_enabled {
            normal.insert(0, at);
        }
        if normal.is_empty() {
            // fair-scheduling rule: yielding threads run only when nothing else can
            if let Some(p) = low.iter().position(|&t| t == at) {
                low.remove(p);
                low.insert(0, at);
            }
            (low, false)
        } else {
            (normal, at_enabled)
        }
    }

    fn set_abort(&self, st: &mut ExecState, a: Abort) {
        if st.abort.is_none() {
            st.abort = Some(a);
        }
        self.cv.notify_all();
    }

    /// Picks the next thread at a decision point reached by `at`. Returns the
    /// chosen thread, or None if the execution was aborted.
    fn decide(&self, st: &mut ExecState, at: usize) -> Option<usize> {
        st.steps += 1;
        if st.steps > st.horizon {
            self.set_abort(st, Abort::Horizon);
            return None;
        }
        let (enabled, at_enabled) = Self::enabled(st, at);
        if enabled.is_empty() {
            let blocked = st
                .threads
                .iter()
                .enumerate()
                .filter(|(_, t)| !t.finished)
                .map(|(i, t)| (i, t.pending.describe()))
                .collect::<Vec<_>>();
            if blocked.is_empty() {
                // everything finished (only possible at the exit of the last thread)
                return None;
            }
            self.set_abort(st, Abort::Deadlock(blocked));
            return None;
        }
        let pos = st.decisions.len();
        let chosen = if pos < st.prefix.len() {
            let c = st.prefix[pos];
            if c >= enabled.len() {
                let msg = format!(
                    "prefix choice {} at decision {} but only {} enabled ({:?})",
                    c,
                    pos,
                    enabled.len(),
                    enabled
                );
                self.set_abort(st, Abort::Divergence(msg));
                return None;
            }
            c
        } else {
            0
        };
        let next = enabled[chosen];
        st.decisions.push(Decision {
            at,
            at_enabled,
            enabled,
            chosen,
        });
        Some(next)
    }

    /// Scheduling point of thread `me` about to perform `op`. Returns when
    /// `me` holds the baton again and `op` is enabled.
    pub fn point(&self, me: usize, op: Op) {
        let mut st = lock(&self.m);
        if st.abort.is_some() {
            drop(st);
            abort_unwind();
            return;
        }
        debug_assert_eq!(st.running, me);
        st.threads[me].pending = op;
        match self.decide(&mut st, me) {
            None => {
                drop(st);
                abort_unwind();
            }
            Some(next) => {
                if next != me {
                    st.running = next;
                    self.cv.notify_all();
                    while st.running != me && st.abort.is_none() {
                        st = self.cv.wait(st).unwrap_or_else(|e| e.into_inner());
                    }
                    if st.abort.is_some() {
                        drop(st);
                        abort_unwind();
                        return;
                    }
                }
                st.threads[me].pending = Op::Running;
            }
        }
    }

    fn wait_start(&self, me: usize) -> bool {
        let mut st = lock(&self.m);
        while st.running != me && st.abort.is_none() {
            st = self.cv.wait(st).unwrap_or_else(|e| e.into_inner());
        }
        if st.abort.is_some() {
            return false;
        }
        st.threads[me].pending = Op::Running;
        true
    }

    fn exit_point(&self, me: usize, panicked: bool) {
        let mut st = lock(&self.m);
        st.threads[me].finished = true;
        st.threads[me].pending = Op::Running;
        if st.abort.is_some() {
            self.cv.notify_all();
            return;
        }
        st.log.push(Event::Exit { tid: me, panicked });
        if let Some(next) = self.decide(&mut st, me) {
            st.running = next;
        }
        self.cv.notify_all();
    }

    pub fn log(&self, e: Event) {
        let mut st = lock(&self.m);
        // once the execution is being torn down threads unwind concurrently:
        // what they do is no longer part of the (deterministic) execution
        if st.abort.is_none() {
            st.log.push(e);
        }
    }

    pub fn new_chan_id(&self) -> usize {
        let mut st = lock(&self.m);
        let id = st.next_chan;
        st.next_chan += 1;
        id
    }

    pub fn now_ms(&self) -> u64 {
        let mut st = lock(&self.m);
        st.clock_ms += 1;
        st.clock_ms
    }

    pub fn aborted(&self) -> bool {
        lock(&self.m).abort.is_some()
    }

    /// Registers a child thread (called by the parent holding the baton).
    pub(crate) fn register_child(&self, parent: usize) -> usize {
        let mut st = lock(&self.m);
        let tid = st.threads.len();
        st.threads.push(ThreadSt {
            pending: Op::Start,
            finished: false,
        });
        st.log.push(Event::Spawn { parent, child: tid });
        tid
    }

    pub(crate) fn add_os_handle(&self, h: std::thread::JoinHandle<()>) {
        lock(&self.m).os_handles.push(h);
    }
}

/// Unwinds the current thread out of the execution (unless it is already
/// unwinding, in which case the caller simply continues: teardown is racing
/// only against other threads that are unwinding too).
fn abort_unwind() {
    if !std::thread::panicking() {
        resume_unwind(Box::new(AbortToken));
    }
}

pub fn is_abort_payload(p: &(dyn Any + Send)) -> bool {
    p.is::<AbortToken>()
}

/// Body of a controlled child thread.
pub(crate) fn child_main<T, F: FnOnce() -> T>(
    exec: Arc<Exec>,
    session: Arc<Session>,
    tid: usize,
    f: F,
    packet: Arc<Mutex<Option<std::thread::Result<T>>>>,
) {
    session::set(Some(Ctx {
        session,
        exec: Some(exec.clone()),
        tid,
    }));
    let res: std::thread::Result<T> = if exec.wait_start(tid) {
        catch_unwind(AssertUnwindSafe(f))
    } else {
        // aborted before this thread ever ran: drop the closure (and what it owns)
        let r = catch_unwind(AssertUnwindSafe(move || drop(f)));
        let _ = r;
        Err(Box::new(AbortToken))
    };
    let panicked = res.is_err();
    *packet.lock().unwrap_or_else(|e| e.into_inner()) = Some(res);
    exec.exit_point(tid, panicked);
    session::set(None);
}

/// Low-priority yield: in a controlled execution the calling thread is
/// scheduled again only when no other thread has an enabled operation.
pub fn low_yield() {
    if let Some(ctx) = session::current() {
        if let Some(exec) = ctx.exec.as_ref() {
            exec.point(ctx.tid, Op::LowYield);
            return;
        }
    }
    std::thread::yield_now();
}

/// Appends a free-form note to the operation log (controlled mode only).
pub fn note(text: String) {
    if let Some(ctx) = session::current() {
        if let Some(exec) = ctx.exec.as_ref() {
            exec.log(Event::Note { tid: ctx.tid, text });
        }
    }
}

/// Runs `body` as thread 0 of a fresh controlled execution that replays
/// `prefix` and then takes the default choice at every later decision.
pub fn run_controlled<R>(
    session: Arc<Session>,
    prefix: &[usize],
    horizon: usize,
    body: impl FnOnce() -> R,
) -> ExecResult<R> {
    let exec = Arc::new(Exec {
        m: Mutex::new(ExecState {
            threads: vec![ThreadSt {
                pending: Op::Running,
                finished: false,
            }],
            running: 0,
            prefix: prefix.to_vec(),
            decisions: Vec::new(),
            log: Vec::new(),
            abort: None,
            steps: 0,
            horizon,
            clock_ms: 0,
            next_chan: 0,
            os_handles: Vec::new(),
        }),
        cv: Condvar::new(),
    });
    let prev = session::set(Some(Ctx {
        session,
        exec: Some(exec.clone()),
        tid: 0,
    }));
    let res = catch_unwind(AssertUnwindSafe(body));
    // The body is over: record who is still alive, then tear everything down.
    let unfinished;
    {
        let mut st = lock(&exec.m);
        unfinished = st
            .threads
            .iter()
            .enumerate()
            .skip(1)
            .filter(|(_, t)| !t.finished)
            .map(|(i, _)| i)
            .collect::<Vec<_>>();
        st.threads[0].finished = true;
        if st.abort.is_none() && !unfinished.is_empty() {
            st.abort = Some(Abort::MainDone);
        }
        exec.cv.notify_all();
    }
    loop {
        let h = lock(&exec.m).os_handles.pop();
        match h {
            Some(h) => {
                let _ = h.join();
            }
            None => break,
        }
    }
    session::set(prev);
    let mut st = lock(&exec.m);
    let abort = st.abort.clone();
    let decisions = std::mem::take(&mut st.decisions);
    let log = std::mem::take(&mut st.log);
    let threads = st.threads.len();
    drop(st);
    let outcome = match (&res, abort) {
        (Err(p), Some(a)) if is_abort_payload(p.as_ref()) => Outcome::Aborted(a),
        (_, Some(a)) if !matches!(a, Abort::MainDone) => Outcome::Aborted(a),
        _ => Outcome::Done(res),
    };
    ExecResult {
        outcome,
        decisions,
        log,
        unfinished_at_return: unfinished,
        threads,
    }
}
