//! Per-thread verification context, inherited by threads spawned through the
//! shim. A *session* carries the harness-chosen answers of the environment
//! (CPU count, RNG factory); an optional controlled execution hangs off it.

use std::cell::RefCell;
use std::sync::atomic::AtomicUsize;
use std::sync::Arc;

pub type RngFactory = Arc<dyn Fn(usize) -> Box<dyn rand::RngCore + Send> + Send + Sync>;

pub struct Session {
    /// Answer of `num_cpus::get()`; `None` = the real count.
    pub num_cpus: Option<usize>,
    /// RNG handed to the i-th caller of `rand::rng()`; `None` = default.
    pub rng_factory: Option<RngFactory>,
    pub rng_calls: AtomicUsize,
    /// Panics on threads of this session are expected inputs: the harness's
    /// panic hook stays silent for them.
    pub quiet: bool,
    /// Controlled executions only: dropping a channel endpoint is a scheduling
    /// point of its own (finer granularity; used to validate the default).
    pub drop_points: bool,
}

impl Session {
    pub fn new(num_cpus: Option<usize>, rng_factory: Option<RngFactory>, quiet: bool) -> Session {
        Session {
            num_cpus,
            rng_factory,
            rng_calls: AtomicUsize::new(0),
            quiet,
            drop_points: false,
        }
    }
}

#[derive(Clone)]
pub struct Ctx {
    pub session: Arc<Session>,
    pub exec: Option<Arc<crate::sched::Exec>>,
    pub tid: usize,
}

thread_local! {
    static CTX: RefCell<Option<Ctx>> = const { RefCell::new(None) };
}

pub fn current() -> Option<Ctx> {
    CTX.with(|c| c.borrow().clone())
}

pub fn set(ctx: Option<Ctx>) -> Option<Ctx> {
    CTX.with(|c| std::mem::replace(&mut *c.borrow_mut(), ctx))
}

/// True if panics on the current thread should not be reported by the
/// harness's panic hook.
pub fn quiet() -> bool {
    CTX.with(|c| c.borrow().as_ref().map(|c| c.session.quiet).unwrap_or(false))
}

/// Runs `body` on the current thread inside `session` (pass-through mode).
pub fn with_session<R>(session: Arc<Session>, body: impl FnOnce() -> R) -> R {
    let prev = set(Some(Ctx {
        session,
        exec: None,
        tid: 0,
    }));
    struct Restore(Option<Option<Ctx>>);
    impl Drop for Restore {
        fn drop(&mut self) {
            set(self.0.take().unwrap());
        }
    }
    let _r = Restore(Some(prev));
    body()
}
