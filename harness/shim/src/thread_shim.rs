//! `std::thread::{spawn, JoinHandle}` replacement.

use crate::sched::{self, Event, Exec, Op};
use crate::session::{self, Ctx};
use std::sync::{Arc, Mutex};

pub struct JoinHandle<T>(Inner<T>);

enum Inner<T> {
    Real(std::thread::JoinHandle<T>),
    Ctl {
        exec: Arc<Exec>,
        tid: usize,
        packet: Arc<Mutex<Option<std::thread::Result<T>>>>,
    },
}

pub fn spawn<F, T>(f: F) -> JoinHandle<T>
where
    F: FnOnce() -> T + Send + 'static,
    T: Send + 'static,
{
    match session::current() {
        None => JoinHandle(Inner::Real(std::thread::spawn(f))),
        Some(Ctx {
            session,
            exec: None,
            ..
        }) => {
            // pass-through, but the child inherits the session
            JoinHandle(Inner::Real(std::thread::spawn(move || {
                session::set(Some(Ctx {
                    session,
                    exec: None,
                    tid: 0,
                }));
                f()
            })))
        }
        Some(Ctx {
            session,
            exec: Some(exec),
            tid: me,
        }) => {
            exec.point(me, Op::Spawn);
            let tid = exec.register_child(me);
            let packet = Arc::new(Mutex::new(None));
            let h = {
                let exec = exec.clone();
                let packet = packet.clone();
                std::thread::Builder::new()
                    .stack_size(512 * 1024)
                    .spawn(move || sched::child_main(exec, session, tid, f, packet))
                    .expect("verif_shim: cannot spawn OS thread")
            };
            exec.add_os_handle(h);
            JoinHandle(Inner::Ctl { exec, tid, packet })
        }
    }
}

impl<T> JoinHandle<T> {
    pub fn join(self) -> std::thread::Result<T> {
        match self.0 {
            Inner::Real(h) => h.join(),
            Inner::Ctl { exec, tid, packet } => {
                let me = session::current().map(|c| c.tid).unwrap_or(0);
                exec.point(me, Op::Join(tid));
                let r = packet
                    .lock()
                    .unwrap_or_else(|e| e.into_inner())
                    .take()
                    .expect("verif_shim: joined thread left no result");
                exec.log(Event::Join {
                    tid: me,
                    target: tid,
                    panicked: r.is_err(),
                });
                r
            }
        }
    }

    pub fn is_finished(&self) -> bool {
        match &self.0 {
            Inner::Real(h) => h.is_finished(),
            Inner::Ctl { packet, .. } => packet.lock().unwrap_or_else(|e| e.into_inner()).is_some(),
        }
    }
}

impl<T> std::fmt::Debug for JoinHandle<T> {
    fn fmt(&self, f: &mut std::fmt::Formatter<'_>) -> std::fmt::Result {
        write!(f, "JoinHandle")
    }
}
