#!/usr/bin/env bash
# usage: tools/confirm_seed.sh Cxx   -- confirms an agent-produced change in its scratch worktree /tmp/mut_Cxx
# (1) suite passes with the change, (2) demo fails with it, (3) demo passes without it.
# Toggles with git apply / git apply -R (the worktrees share one stash, so git stash is not safe in parallel).
set -u
ID="$1"; W=${SEEDROOT:-/tmp/mut}_$ID; O=${SEEDROOT:-/tmp/mut}_${ID}_out
cd "$W" || exit 2
export CARGO_TARGET_DIR="$W/target"
R="$O/confirm.txt"; : > "$R"
git checkout -q -- . ; rm -rf tests
git apply "$O/patch.diff" || { echo "patch.diff does not apply to a clean checkout" >> "$R"; cat "$R"; exit 2; }
suite=$(cargo test --workspace --no-fail-fast --offline 2>&1 | grep -E "^test result" | tr '\n' ' ')
echo "suite_with_change: $suite" >> "$R"
mkdir -p tests
if [ -f "$O/demo.rs" ]; then
  cp "$O/demo.rs" tests/demo.rs
  cargo test --offline --test demo >"$O/confirm_demo_with.log" 2>&1; a=$?
  git apply -R "$O/patch.diff"
  cargo test --offline --test demo >"$O/confirm_demo_without.log" 2>&1; b=$?
  git apply "$O/patch.diff"
  rm -rf tests
  echo "demo_with_change_exit=$a demo_without_change_exit=$b" >> "$R"
elif [ -f "$O/demo.sh" ]; then
  bash "$O/demo.sh" >"$O/confirm_demo_with.log" 2>&1; a=$?
  git apply -R "$O/patch.diff"
  bash "$O/demo.sh" >"$O/confirm_demo_without.log" 2>&1; b=$?
  git apply "$O/patch.diff"
  echo "demo_with_change_exit=$a demo_without_change_exit=$b" >> "$R"
else
  echo "no demo found" >> "$R"
fi
cat "$R"
