#!/usr/bin/env bash
# usage: tools/confirm_seed.sh Cxx   -- confirms an agent-produced change in its scratch worktree /tmp/mut_Cxx
# (1) suite passes with the change, (2) demo fails with it, (3) demo passes without it.
set -u
ID="$1"; W=/tmp/mut_$ID; O=/tmp/mut_${ID}_out
cd "$W" || exit 2
export CARGO_TARGET_DIR="$W/target"
R="$O/confirm.txt"; : > "$R"
git diff --quiet && { echo "no change in worktree" >> "$R"; exit 2; }
if ! diff <(git diff) "$O/patch.diff" >/dev/null; then echo "NOTE: worktree diff differs from patch.diff" >> "$R"; fi
suite=$(cargo test --workspace --no-fail-fast --offline 2>&1 | grep -E "^test result" | tr '\n' ' ')
echo "suite_with_change: $suite" >> "$R"
mkdir -p tests
if [ -f "$O/demo.rs" ]; then
  cp "$O/demo.rs" tests/demo.rs
  cargo test --offline --test demo >"$O/confirm_demo_with.log" 2>&1; a=$?
  git stash -q -- src
  cargo test --offline --test demo >"$O/confirm_demo_without.log" 2>&1; b=$?
  git stash pop -q
  rm -rf tests
  echo "demo_with_change_exit=$a demo_without_change_exit=$b" >> "$R"
elif [ -f "$O/demo.sh" ]; then
  bash "$O/demo.sh" >"$O/confirm_demo_with.log" 2>&1; a=$?
  git stash -q -- src
  bash "$O/demo.sh" >"$O/confirm_demo_without.log" 2>&1; b=$?
  git stash pop -q
  echo "demo_with_change_exit=$a demo_without_change_exit=$b" >> "$R"
else
  echo "no demo found" >> "$R"
fi
cat "$R"
