#!/usr/bin/env python3
"""usage: install_seed.py <seedroot> <Cxx> <suffix> <origin> <change> <needs>
Copies patch/demo/notes from <seedroot>_<Cxx>_out into /verif/seeded/<Cxx>-<suffix>/ and writes meta.json
(confirm.txt must have been produced by tools/confirm_seed.sh)."""
import json, os, shutil, sys
root, cid, suffix, origin, change, needs = sys.argv[1:7]
o = "%s_%s_out" % (root, cid)
d = os.path.join(os.path.dirname(os.path.dirname(os.path.abspath(__file__))), "seeded", "%s-%s" % (cid, suffix))
os.makedirs(d, exist_ok=True)
for f in ("patch.diff", "demo.rs", "demo.sh", "notes.md"):
    if os.path.exists(os.path.join(o, f)):
        shutil.copy(os.path.join(o, f), os.path.join(d, f))
conf = open(os.path.join(o, "confirm.txt")).read().strip().splitlines()
json.dump({"property": cid, "origin": origin, "change": change, "needs_to_manifest": needs, "confirmed_by": "tools/confirm_seed.sh",
           "confirmation": conf, "ran": ["tools/run_seeded.sh seeded/%s-%s" % (cid, suffix)]}, open(os.path.join(d, "meta.json"), "w"), indent=1)
print(d)
