#!/usr/bin/env python3
"""usage: make_seed_round.py <root e.g. /tmp/m7> <twist: narrow|interaction|dependency|scale|free> <Cxx>...
Creates one detached scratch worktree of /repo per property (<root>_<Cxx>), an output directory
(<root>_<Cxx>_out) holding ONLY the property's own text (property.json) and the agent's prompt
(PROMPT.txt). Nothing from /verif other than the property text is given to the agent."""
import json, os, subprocess, sys
root, twist, ids = sys.argv[1], sys.argv[2], sys.argv[3:]
here = os.path.dirname(os.path.abspath(__file__))
TW = {
 "narrow": "THIS ROUND'S TWIST - the violation must have a NARROW TRIGGER: it must NOT be exposed by the smallest or most obvious inputs. Aim for something that needs one of: a particular non-initial state or history of several operations; exactly one of many configurations; a boundary or tie value; a particular size relation (degree >= 9, more rows than columns, length crossing a chunk size); a particular thread schedule.",
 "interaction": "THIS ROUND'S TWIST - INTERACTION: the violation must need TWO independent features / options / conditions at the same time, each of which alone still behaves correctly (for example: puncturing AND a backward interleaver; an outer-code threshold AND a zero report interval; padded output AND an empty row; the layered schedule AND degree-one clipping; an iteration limit of 0 AND a non-codeword input; one particular arithmetic AND one particular matrix shape; a reused object AND a changed argument). Say in notes.md which two things must coincide, and show in the demo that each alone passes.",
 "dependency": "THIS ROUND'S TWIST - the change must NOT be in the files the property is anchored in; break the property through something that code USES (a helper, a container, a shared data structure, another module).",
 "scale": "THIS ROUND'S TWIST - BEYOND SMALL SCOPE: assume the project is checked by a tool that exhaustively enumerates SMALL inputs (matrices up to about 4x5, vectors of a few elements from a small alphabet, operation histories of a few steps, two or three threads) against reference models. Design the change so that its SMALLEST failing input is large or rare: it needs, for example, at least 7 rows or columns, a degree above 16, a history of 5 or more operations, a length beyond 1000, an accumulated count beyond 255, a numeric coincidence between two computed quantities, or 4 or more threads. State in notes.md the smallest failing input you know and why nothing smaller fails.",
 "free": "Prefer a change that needs something specific to manifest (a particular input, configuration, history or schedule) over one that fails on every input.",
}[twist]
tmpl = open(os.path.join(here, "seed_prompt.txt")).read()
props = {json.loads(l)["id"]: json.loads(l) for l in open(os.path.join(here, "..", "properties.jsonl"))}
for cid in ids:
    w = "%s_%s" % (root, cid)
    subprocess.check_call(["git", "-C", "/repo", "worktree", "add", "-q", "--detach", w, "HEAD"])
    os.makedirs(w + "_out", exist_ok=True)
    json.dump(props[cid], open(w + "_out/property.json", "w"), indent=1)
    open(w + "_out/PROMPT.txt", "w").write(tmpl.replace("@W@", w).replace("@TWIST@", TW).replace("@HINT@", ""))
    print(w)
