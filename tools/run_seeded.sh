#!/usr/bin/env bash
# usage: tools/run_seeded.sh <seeded-dir> [check ids...]   (default: the property in meta.json)
# Applies <seeded-dir>/patch.diff to /repo, runs the checks (quick tier), restores /repo.
set -u
D="$(cd "$1" && pwd)"; shift
ROOT="$(cd "$(dirname "${BASH_SOURCE[0]}")/.." && pwd)"
IDS="$*"
if [ -z "$IDS" ]; then IDS=$(python3 -c "import json,sys; print(json.load(open('$D/meta.json'))['property'])"); fi
if ! git -C /repo diff --quiet; then echo "/repo has local changes; refusing"; exit 2; fi
git -C /repo apply "$D/patch.diff" || { echo "patch does not apply"; exit 2; }
trap 'git -C /repo checkout -- . ' EXIT
for id in $IDS; do
  out=$("$ROOT/check" "$id" --tier "${TIER:-quick}" 2>&1); code=$?
  nviol=$(echo "$out" | grep -c '^VIOLATION')
  echo "== $(basename $D) check=$id exit=$code violations_printed=$nviol"
  echo "$out" | grep -A1 '^VIOLATION' | head -4 | cut -c1-400
  echo "$out" | grep -E 'MACHINERY' | head -3
done
