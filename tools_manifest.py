#!/usr/bin/env python3
"""Regenerates MANIFEST.json from the table below (kept in one place so the
manifest stays valid and consistent with what ./check implements)."""
import json, os
HERE = os.path.dirname(os.path.abspath(__file__))
C = {}
def add(pid, engine, text, note, technique):
    C[pid] = dict(engine=engine, text=text, note=note, technique=technique)

add("C01","enum","Bounded exhaustive on the real decoders: all 36 factory-built implementations x every small matrix with row weights >= 2 x full powers of an LLR alphabet that hits every branch and rounding boundary (+-0, 8-bit round-half boundary, +-127/8, +-1e30, f32-underflow and subnormal values) x iteration limits; judged by the pure verdict/word/iteration relation the property states. Small scopes contain the combinations of local features the relation usually breaks through (a degree-1 variable, a zero LLR, limit 0); beyond them the check probes matrices with a check or a variable of degree 17, 65, 129, 257, 258, 300 (thorough 1025) and 1025 (4097) rows with saturated, 1e30 and sub-quantum LLRs: three defects of the pinned tree (NaN panics of the float A-Min* rule, i16 overflow of the 8-bit rules above variable degree 257) were found only there.","Real-valued LLRs: exhaustive over the stated alphabet only; matrices beyond the listed shapes not claimed.","bounded exhaustive input enumeration, relational oracle")
add("C02","enum","Bounded exhaustive: every binary matrix of the listed small shapes and the whole staircase/near-staircase family, each with ALL messages and all message pairs, executed on the real encoder and compared with an independent GF(2) reference.","Trusted: the harness's bit-set GF(2) elimination; shapes beyond the bounds are not claimed.","bounded exhaustive input enumeration against a GF(2) reference model")
add("C03","enum","Bounded exhaustive with checker-supplied arithmetics plugged into the real generic decoders: an exact integer min-sum inside a probing wrapper that logs every trait call; every small matrix in every/three insertion orders x integer LLR alphabets x limits; verdict, word, iteration count and the normalised call log must equal a textbook implementation. Exactness clause: every small forest x LLR grid, forcing wrapper, brute-force posterior.","Parametricity of the generic decoders in the arithmetic; float posterior comparison within 1e-9.","bounded exhaustive input enumeration with call-trace comparison against a textbook reference model")
add("C04","enum","Exhaustive for the 16 eight-bit rules at degrees 2 and 3 (every vector in [-127,127]^d), count-profile enumeration to degree 30, grid enumeration for the 8 float rules; each output judged against exact box-plus / the real-valued rule with per-instance conditioning tolerances.","Float domain: stated alphabets only. Ill-conditioned instances are counted, not judged for accuracy.","exhaustive / bounded exhaustive input enumeration against a real-valued reference rule")
add("C05","enum","Exhaustive for 8-bit variable updates at degrees 1 and 2, count profiles to degree 200, every half-integer quantiser boundary, and layered-vs-flooding consistency over grids inside the reachable envelope, with overflow checks compiled in.","Float comparisons within a few ulp; 8-bit comparisons exact.","exhaustive / bounded exhaustive input enumeration against integer reference arithmetic")
add("C06","enum","Exhaustive over the 21 code identifiers: literal tables of the standard, structural laws checked on every column, independent 4-cycle test, encoder acceptance in linear time, pinned SHA-256 digests.","Address tables are pinned, not re-derived from the paper standard.","exhaustive enumeration of all configurations against literal standard tables, structural invariants and pins")
add("C07","enum","Exhaustive over the 9 AR4JA codes and C2: literal M table, sub-block circulant invariance on every entry, protograph degrees on every row/column, rank / invertible tail by independent elimination, encoder acceptance, girth, pins.","theta/phi/circulant tables pinned; library encoder exercised up to k = 4096.","exhaustive enumeration of all configurations against literal standard tables, structural invariants and pins")
add("C08","enum","Bounded exhaustive: all small matrices x insertion orders x padded/unpadded through writer, grammar recogniser and parser; full product menu of malformed texts and every single-token mutation of valid alists through the parser.","Trusted: harness recogniser and reference parser; declared dimensions <= 6.","bounded exhaustive input enumeration (matrices and token-level text mutations) against a reference parser")
add("C09","enum","Bounded exhaustive: every r x n binary matrix in the listed scopes through parity_to_systematic, compared with reference rank, column-multiset, tail invertibility, encoder acceptance and code equality.","Trusted: harness GF(2) reference.","bounded exhaustive input enumeration against a GF(2) reference model")
add("C10","bfs","Explicit-state model checking of the live decoder object: BFS over decode-call histories to closure (state = complete Debug dump of the object), oracle on every transition = equality with a freshly built decoder. Covers all finite histories over the op menu, not only a length bound.","Op menu of ~14-23 LLR vectors x 4-5 limits on 4 matrices; other inputs not explored.","explicit-state BFS over API call histories to closure, fresh-object differential oracle")
add("C11","enum","Bounded exhaustive: every small Tanner graph x every root x every bound, plus structured families (pendant paths on cycles, theta graphs), compared with an independent edge-deletion girth and BFS reference.","Trusted: harness reference graph algorithms.","bounded exhaustive input enumeration against a reference graph model")
add("C14","enum","Exhaustive over a stated (sigma x sample) grid and all bit sequences up to a length bound, compared with a log-sum-exp posterior computed from the literal EN 302 307-1 constellation table.","Real-valued domain: only the stated grid is claimed.","exhaustive enumeration of a stated grid against a closed-form posterior reference")
add("C15","enum","Bounded exhaustive: every (columns, rows, backward) shape and every puncturing pattern/block size/indivisible length up to the bounds, on all-distinct vectors so the whole permutation is observed.","Element types i32/f64/u8/GF2.","bounded exhaustive input enumeration against closed-form permutations")
add("C17","bfs","Explicit-state model checking of the real SparseMatrix object: BFS over all operation histories to closure (no new concrete states), oracle = agreement with a set model on every transition.","State key = complete ordered adjacency lists; shapes up to 3x2/2x3 (3x3, 2x4 thorough).","explicit-state BFS over API call histories to closure, set reference model")
add("C18","enum","Exhaustive over the 36 names (parse/print/CLI value list), every edit-distance-1 non-member string, and factory-vs-direct behavioural equality on a family that measurably separates all 48 (schedule, arithmetic) combinations.","Behavioural equality decided on the separating family.","exhaustive enumeration of names and edit-distance-1 strings; differential comparison on a separating input family")

add("C13","sched","Stateless model checking of the real BER engine: BerTest::run (collector, W workers, result channel, termination channels, joins) runs under a controlled scheduler in which every channel operation, spawn, join and thread exit is a scheduling point; ALL schedules with at most b preemptions are enumerated by DFS per scenario (W<=3, b up to 3-4 for two workers, 2-3 for three), including failure-injection scenarios; every complete execution is judged against a fold over the arrival order read from the scheduler's own log (exact statistics at every report, exact stopping point, joins, final 'finished' report, error instead of hang).","Worker counts > 3 and deeper preemption bounds not explored; drops of channel endpoints are not separate scheduling points; a frame budget bounds how far a worker runs ahead.","stateless preemption-bounded DFS of thread schedules of the real code under a controlled scheduler (CHESS-style iterative context bounding)")

add("C12","enum","Bounded exhaustive over the configuration space of the BER chain with every source of randomness owned by the harness: (4 codes) x (BPSK, 8PSK) x (every puncturing pattern of length <= 6) x (every interleaver column count dividing the frame, both directions) x 4 Eb/N0 x noise streams, ALL messages per run; the LLR vectors the real engine hands to an injected decoder are compared value by value with an independent reference chain.","Gaussianity of the draws is delegated to rand_distr (trusted base); one worker thread.","bounded exhaustive enumeration of configurations with harness-owned RNG, differential comparison against an independent reference chain")

add("C16","enum","Bounded exhaustive over a configuration grid x a window of consecutive seeds for both constructions, every run executed twice; every invariant of the statement checked on every successful result, the PEG edge rule replayed edge by edge against an independent BFS; the parallel seed search compared, under four pool sizes, with the exhaustively computed per-seed outcome set of its window (including windows cut just before / at the first successful seed).","u64 seeds: a window only. rayon's own interleavings are not enumerated: correctness for every schedule rests on the exhaustive per-seed outcome set plus independence of the per-seed runs.","bounded exhaustive enumeration of configurations x seed window against invariants and a replayed reference construction; exhaustive environment-answer menu for the parallel search")
add("C19","bfs","The eight exported C symbols are called through extern \"C\": constructors over a full menu of alist texts / names / puncturing strings (null exactly when a prerequisite fails); decoder handles explored over EVERY call sequence up to depth 3 from a 48-72 call menu, each call compared with a fresh Rust decoder; encoder handles over every input in {0,1,2,255}^k.","Buffers have the documented lengths (the C contract).","explicit-state exploration of all call sequences to depth 3 on live handles, fresh-object differential oracle; exhaustive constructor/argument menus")
add("C20","enum","Exhaustive / bounded exhaustive over argument menus of the real binary built from the working tree with the guard off: every dvbs2 and ccsds argument combination, grids for mackay-neal / peg / systematic / encode / ber, and invalid invocations for each subcommand; stdout, stderr, exit status and output files compared with what the library computes.","ber output is judged through run-invariant identities only.","exhaustive enumeration of CLI argument menus, differential comparison with the library")

NA = {}
def na(pid, reason): NA[pid] = reason

def load_overrides():
    p = os.path.join(HERE, "manifest_overrides.json")
    return json.load(open(p)) if os.path.exists(p) else {}

def main():
    checks = []
    for pid in sorted(C):
        c = C[pid]
        checks.append({
            "property_id": pid,
            "quick_cmd": f"./check {pid} --tier quick",
            "thorough_cmd": f"./check {pid} --tier thorough",
            "evidence_file": f"evidence/{pid}.json",
            "replay_cmd_template": f"./check {pid} --replay {{path}}",
            "engine": c["engine"],
            "level_claimed": {"category": "model_checking", "text": c["text"], "design_ref": f"DESIGN.md section 5, {pid}"},
            "level_note": c["note"],
            "technique": c["technique"],
        })
    engines = [
        {"name": "enum", "path": "harness/mc/src", "serves_properties": sorted(p for p in C if C[p]["engine"] == "enum"), "kind_free_text": "bounded exhaustive input enumeration on the real functions against reference models (rayon-parallel, every subject call under catch_unwind)"},
        {"name": "bfs", "path": "harness/mc/src", "serves_properties": sorted(p for p in C if C[p]["engine"] == "bfs"), "kind_free_text": "explicit-state BFS over API call histories of a live object, to closure"},
        {"name": "sched", "path": "harness/shim/src/sched.rs", "serves_properties": sorted(p for p in C if C[p]["engine"] == "sched"), "kind_free_text": "controlled baton-passing scheduler over real OS threads + preemption-bounded DFS of the real BER engine"},
    ]
    m = {
        "version": 1,
        "setup_cmd": "./check --setup",
        "hooks": {
            "guard": "--cfg ldpc_toolbox_verif",
            "enable": "The harness package /verif/harness/ldpc (manifest generated from /repo/Cargo.toml, [lib] path = /repo/src/lib.rs) is built with RUSTFLAGS=--cfg ldpc_toolbox_verif (harness/.cargo/config.toml) and depends on /verif/harness/shim (crate verif_shim). The repository's own manifest never enables the guard.",
            "baseline_off_cmd": "cd /repo && cargo test --workspace --no-fail-fast --offline",
            "source_commits": ["f112429"],
            "add_only": True,
        },
        "engines": [e for e in engines if e["serves_properties"]],
        "checks": checks,
        "not_applicable": [{"property_id": p, "reason": NA[p]} for p in sorted(NA)],
        "notes": "See DESIGN.md. known_findings.txt lists the twelve repairs (fix: commits) of defects of the pinned tree in /repo (all 'fixed:' entries; no open findings).",
    }
    json.dump(m, open(os.path.join(HERE, "MANIFEST.json"), "w"), indent=1)

if __name__ == "__main__":
    main()
